package main

import (
	"encoding/json"
	"flag"
	"fmt"
	"os"
	"path/filepath"
	"regexp"
	"sort"
	"strconv"
	"strings"
	"time"

	"verifharness/hx"
)

// F-Calls family: recursive named struct types with an extend function (marking, fault injecting, optionally
// with a context parameter); one package per program, default output ./generated/generated.go.

type callsScen struct {
	Dir     string              `json:"dir"`
	Shape   map[string][]string `json:"shape"`
	RootErr bool                `json:"rootErr"`
	ExtErr  bool                `json:"extErr"`
	RootCtx bool                `json:"rootCtx"`
	ExtCtx  bool                `json:"extCtx"`
	ExtId   bool                `json:"extId"`
	Wrap    string              `json:"wrap"`
	DeclB   string              `json:"declB"`
	Under   bool                `json:"under"`
	DeclL   bool                `json:"declL"`
	DeclH   bool                `json:"declH"`
	GenOK   bool                `json:"genOK"`
	Model   string              `json:"model"`
	Ins     []json.RawMessage   `json:"ins"`
}

func callsFieldTypes(fk string) (string, string) {
	m := map[string][2]string{"i2i": {"int", "int"}, "i2s": {"int", "string"}, "ptrA": {"*A", "*A2"}, "ptrB": {"*B", "*B2"},
		"slcA": {"[]A", "[]A2"}, "slcB": {"[]B", "[]B2"}, "valB": {"B", "B2"},
		"s2s": {"string", "string"}, "mapB": {"map[string]B", "map[string]B2"}, "mapK": {"map[int]int", "map[string]int"}, "mapV": {"map[string]int", "map[string]string"}, "mapKV": {"map[int]int", "map[string]string"}, "p2vB": {"*B", "B2"}, "p2s": {"*int", "string"}, "mth": {"int", "int"}, "i2ps": {"int", "*string"}, "pp2s": {"*int", "*string"}, "mapVS": {"map[string][]int", "map[string][]string"}, "nI2s": {"NI", "string"}, "nL": {"LP", "[]int"}}
	return m[fk][0], m[fk][1]
}

func callsSource(i int, s callsScen) string {
	var b strings.Builder
	pkg := fmt.Sprintf("p%d", i)
	if s.Dir != "p" && s.Dir != "" {
		pkg = s.Dir
	}
	ext := "E"
	if i%2 == 1 {
		// every other program selects the function by a pattern; XE (below) ends with a match but is not one
		ext = "E.*"
	}
	if s.ExtId {
		ext += " Canon"
	}
	wrap := ""
	if s.Wrap == "using" {
		wrap = "// goverter:wrapErrorsUsing v.test/b/wx\n"
	}
	if s.Wrap == "plain" {
		wrap = "// goverter:wrapErrors\n"
	}
	for _, sh := range s.Shape {
		for _, fk := range sh {
			if (fk == "p2vB" || fk == "p2s") && !strings.Contains(wrap, "useZeroValue") {
				wrap += "// goverter:useZeroValueOnPointerInconsistency\n"
			}
		}
	}
	if s.Under {
		wrap += "// goverter:useUnderlyingTypeMethods\n"
	}
	fmt.Fprintf(&b, "package %s\n\nimport \"math\"\n\ntype Ctx struct{ Tok string }\n\n// goverter:converter\n// goverter:extend %s\n%stype C interface {\n", pkg, ext, wrap)
	params := "source A"
	if s.RootCtx {
		b.WriteString("\t// goverter:context ctx\n")
		params += ", ctx Ctx"
	}
	if s.RootErr {
		fmt.Fprintf(&b, "\tConv(%s) (A2, error)\n", params)
	} else {
		fmt.Fprintf(&b, "\tConv(%s) A2\n", params)
	}
	// a second declared method for B -> B2, with or without a context parameter
	switch s.DeclB {
	case "plain":
		b.WriteString("\tConvB(source B) B2\n")
	case "ctx":
		b.WriteString("\t// goverter:context ctx\n\tConvB(source B, ctx Ctx) B2\n")
	}
	if s.DeclL && s.RootErr {
		b.WriteString("\t// goverter:useZeroValueOnPointerInconsistency\n\tConvL(source []*int) ([]int, error)\n")
	} else if s.DeclL {
		b.WriteString("\t// goverter:useZeroValueOnPointerInconsistency\n\tConvL(source []*int) []int\n")
	}
	if s.DeclH {
		b.WriteString("\tTail(source H) H2\n")
	}
	b.WriteString("}\n\ntype NI int\ntype LP []*int\ntype H struct{ F *B }\ntype H2 struct{ F *B2 }\n")
	b.WriteString("\nvar faults bool\n\nfunc SetFaults(on bool) { faults = on }\n\ntype ErrInj struct{ Tok string }\n\nfunc (e ErrInj) Error() string { return \"inj:\" + e.Tok }\n\n")
	b.WriteString("func tok(v int) string {\n\tswitch v {\n\tcase 0:\n\t\treturn \"z\"\n\tcase math.MinInt:\n\t\treturn \"a\"\n\tcase math.MaxInt:\n\t\treturn \"b\"\n\t}\n\treturn \"?\"\n}\n\n")
	eparams, mark := "v int", "\"E(\" + tok(v) + \")\""
	if s.ExtCtx {
		b.WriteString("// goverter:context ctx\n")
		eparams += ", ctx Ctx"
		mark += " + \"@\" + ctx.Tok"
	}
	if s.ExtErr {
		fmt.Fprintf(&b, "func E(%s) (string, error) {\n\tif faults && tok(v) == \"a\" {\n\t\treturn \"\", ErrInj{tok(v)}\n\t}\n\treturn %s, nil\n}\n", eparams, mark)
	} else {
		fmt.Fprintf(&b, "func E(%s) string { return %s }\n", eparams, mark)
	}
	b.WriteString("\n// XE must never be selected by the pattern E.* (a match has to start at the beginning of the name)\nfunc XE(v int) string { return \"X\" }\n")
	b.WriteString("\nfunc Canon(s string) string {\n\tif s == \"\" {\n\t\ts = \"z\"\n\t}\n\treturn \"C(\" + s + \")\"\n}\n\nfunc Tok(v int) string { return tok(v) }\n")
	names := []string{"F", "G"}
	var meths strings.Builder
	for _, id := range []string{"A", "B"} {
		var sf, tf []string
		for k, fk := range s.Shape[id] {
			st, tt := callsFieldTypes(fk)
			if fk == "mth" {
				// the target field is matched with a source method of its name, reading a field of another name
				sf = append(sf, "X"+names[k]+" "+st)
				if s.ExtErr {
					fmt.Fprintf(&meths, "\nfunc (x %s) %s() (int, error) {\n\tif faults && tok(x.X%s) == \"a\" {\n\t\treturn 0, ErrInj{tok(x.X%s)}\n\t}\n\treturn x.X%s, nil\n}\n", id, names[k], names[k], names[k], names[k])
				} else {
					fmt.Fprintf(&meths, "\nfunc (x %s) %s() int { return x.X%s }\n", id, names[k], names[k])
				}
			} else {
				sf = append(sf, names[k]+" "+st)
			}
			tf = append(tf, names[k]+" "+tt)
		}
		fmt.Fprintf(&b, "\ntype %s struct{ %s }\ntype %s2 struct{ %s }\n", id, strings.Join(sf, "; "), id, strings.Join(tf, "; "))
	}
	b.WriteString(meths.String())
	return b.String()
}

// progDir is the directory (= import path below the module) of program i; special names get a parent of their own.
func progDir(i int, s callsScen) string {
	if s.Dir != "p" && s.Dir != "" {
		return fmt.Sprintf("p%d/%s", i, s.Dir)
	}
	return fmt.Sprintf("p%d", i)
}

// wxSource: the wrapErrorsUsing package of the harness. Wrap prepends its elements to the path the error already carries,
// so nested Wrap calls compose outermost first.
const wxSource = `package wx

import (
	"fmt"
	"math"
	"strings"
)

type PathErr struct {
	Err   error
	Elems []string
}

func (p *PathErr) Error() string { return "path:" + strings.Join(p.Elems, "/") + "|" + p.Err.Error() }
func (p *PathErr) Unwrap() error { return p.Err }

type elem string

func Wrap(err error, elems ...interface{}) error {
	var es []string
	for _, e := range elems {
		es = append(es, string(e.(elem)))
	}
	if pe, ok := err.(*PathErr); ok {
		return &PathErr{Err: pe.Err, Elems: append(es, pe.Elems...)}
	}
	return &PathErr{Err: err, Elems: es}
}
func Field(name string) interface{} { return elem(name) }
func Index(i int) interface{}        { return elem(fmt.Sprintf("[%d]", i)) }
func Key(k interface{}) interface{} {
	switch v := k.(type) {
	case int:
		switch v {
		case 0:
			return elem("{z}")
		case math.MinInt:
			return elem("{a}")
		case math.MaxInt:
			return elem("{b}")
		}
		return elem(fmt.Sprintf("{%d}", v))
	case string:
		if v == "" {
			return elem("{z}")
		}
		return elem("{" + v + "}")
	}
	return elem(fmt.Sprintf("{%v}", k))
}
` + "\n"

func stripLabels(v any) any {
	switch x := v.(type) {
	case map[string]any:
		out := map[string]any{}
		for k, y := range x {
			if k == "a" {
				continue
			}
			out[k] = stripLabels(y)
		}
		if t, ok := out["tok"].(string); ok && strings.HasPrefix(t, "?") {
			out["tok"] = t[1:]
		}
		return out
	case []any:
		out := make([]any, len(x))
		for i, y := range x {
			out[i] = stripLabels(y)
		}
		return out
	}
	return v
}

var callsCompErr = regexp.MustCompile(`(?m)^(?:\./)?(?:p|api)(\d+)/(?:[a-z]+/)*[a-z_]+\.go:\d+:\d+: (.*)$`)

func cmdCalls(args []string) {
	fs := flag.NewFlagSet("calls", flag.ExitOnError)
	scenFile := fs.String("scen", "", "")
	obsFile := fs.String("obs", "", "")
	traceFile := fs.String("trace", "", "")
	work := fs.String("work", "", "")
	maxIns := fs.Int("maxins", 1000000, "cap on inputs per program (evenly spaced)")
	fs.Parse(args)
	var scens []callsScen
	hx.Must(hx.ReadNDJSON(*scenFile, func(i int, b []byte) error {
		var s callsScen
		if err := json.Unmarshal(b, &s); err != nil {
			return err
		}
		if len(s.Ins) > *maxIns {
			step := float64(len(s.Ins)) / float64(*maxIns)
			var sel []json.RawMessage
			for k := 0; k < *maxIns; k++ {
				sel = append(sel, s.Ins[int(float64(k)*step)])
			}
			s.Ins = sel
		}
		scens = append(scens, s)
		return nil
	}))
	mod := "v.test/b"
	files := map[string]string{"go.mod": "module " + mod + "\ngo 1.18\n", "wx/wx.go": wxSource}
	for i, s := range scens {
		files[progDir(i, s)+"/in.go"] = callsSource(i, s)
	}
	hx.WriteTree(*work, files)
	t0 := time.Now()
	var outs []hx.Outcome
	var err error
	gen := func() { outs, err = hx.GenerateEach(hx.GenConfig(*work, []string{"./..."}, nil)) }
	var events []map[string]any
	if *traceFile != "" {
		events = hx.Trace(gen)
	} else {
		gen()
	}
	hx.Must(err)
	tGen := time.Since(t0)
	if len(outs) != len(scens) {
		panic(fmt.Sprint("result count ", len(outs), " != ", len(scens)))
	}
	// outcomes come back in package load order: map them to programs through the output path
	byProg := make([]*hx.Outcome, len(scens))
	ok := map[int]bool{}
	for k := range outs {
		o := &outs[k]
		idx := -1
		if m := regexp.MustCompile(`/p(\d+)/`).FindStringSubmatch(o.File + "/"); m != nil {
			idx, _ = strconv.Atoi(m[1])
		}
		if idx < 0 {
			panic("cannot attribute outcome " + o.File)
		}
		byProg[idx] = o
		if o.Gen == "ok" {
			for p, c := range o.Files {
				hx.Must(os.MkdirAll(filepath.Dir(p), 0o755))
				hx.Must(os.WriteFile(p, c, 0o644))
			}
			ok[idx] = true
		}
	}
	// API assertions live in a package of their own per program
	for i := range scens {
		if ok[i] {
			hx.WriteTree(*work, map[string]string{fmt.Sprintf("api%d/api.go", i): fmt.Sprintf("//go:build !goverter\n\npackage api%d\n\nimport (\n\tp \"%s/%s\"\n\tg \"%s/%s/generated\"\n)\n\nvar _ p.C = &g.CImpl{}\n", i, mod, progDir(i, scens[i]), mod, progDir(i, scens[i]))})
		}
	}
	badComp := map[int]string{}
	badAPI := map[int]string{}
	drv := filepath.Join(*work, "drv")
	hx.Must(os.MkdirAll(drv, 0o755))
	hx.Must(os.WriteFile(filepath.Join(drv, "main.go"), []byte(hx.DriverSource), 0o644))
	var tBuild time.Duration
	for round := 0; ; round++ {
		var reg strings.Builder
		reg.WriteString("//go:build !goverter\n\npackage main\n\nimport (\n\t\"reflect\"\n")
		ids := []int{}
		for i := range scens {
			if ok[i] && badComp[i] == "" {
				ids = append(ids, i)
			}
		}
		sort.Ints(ids)
		for _, i := range ids {
			fmt.Fprintf(&reg, "\tp%d \"%s/%s\"\n\tg%d \"%s/%s/generated\"\n", i, mod, progDir(i, scens[i]), i, mod, progDir(i, scens[i]))
			if badAPI[i] == "" {
				fmt.Fprintf(&reg, "\t_ \"%s/api%d\"\n", mod, i)
			}
		}
		reg.WriteString(")\n\nvar registry = map[int]reflect.Value{\n")
		for _, i := range ids {
			fmt.Fprintf(&reg, "\t%d: reflect.ValueOf((&g%d.CImpl{}).Conv),\n", i, i)
		}
		reg.WriteString("}\n\nvar setFaults = map[int]func(bool){\n")
		for _, i := range ids {
			fmt.Fprintf(&reg, "\t%d: p%d.SetFaults,\n", i, i)
		}
		reg.WriteString("}\n")
		hx.Must(os.WriteFile(filepath.Join(drv, "registry.go"), []byte(reg.String()), 0o644))
		out, berr, d := hx.GoBuild(*work, "-gcflags=all=-e", "-o", "drv.bin", "./drv")
		tBuild += d
		if berr == nil {
			break
		}
		ms := callsCompErr.FindAllStringSubmatch(out, -1)
		if len(ms) == 0 || round > 12 {
			panic("driver build failed (not attributable):\n" + out[:min(len(out), 3000)])
		}
		for _, m := range ms {
			id, _ := strconv.Atoi(m[1])
			if strings.Contains(m[0], "api"+m[1]+"/") {
				if badAPI[id] == "" {
					badAPI[id] = m[2]
				}
			} else if badComp[id] == "" {
				badComp[id] = m[2]
			}
		}
	}
	// driver scenario: every input without and with the fault plan {a}
	drvScen := filepath.Join(*work, "drv.ndjson")
	w, err := hx.NewNDWriter(drvScen)
	hx.Must(err)
	ctxv := map[string]any{"k": "st", "fs": []any{map[string]any{"k": "b", "tok": "#c"}}}
	type call struct {
		Args   []any `json:"args"`
		Dump   []int `json:"dump"`
		Faults bool  `json:"faults"`
	}
	for i, s := range scens {
		calls := []call{}
		if ok[i] && badComp[i] == "" {
			for _, in := range s.Ins {
				var v any
				hx.Must(json.Unmarshal(in, &v))
				a := []any{v}
				if s.RootCtx {
					a = append(a, ctxv)
				}
				calls = append(calls, call{Args: a, Dump: []int{}, Faults: false})
				if s.ExtErr {
					calls = append(calls, call{Args: a, Dump: []int{}, Faults: true})
				}
			}
		}
		w.Write(map[string]any{"ins": []any{}, "calls": calls, "lit": false})
	}
	w.Close()
	t1 := time.Now()
	b := hx.NewBatch(*work)
	recs, _, err := b.RunDriver(drvScen, "seq")
	hx.Must(err)
	tExec := time.Since(t1)
	obs, err := hx.NewNDWriter(*obsFile)
	hx.Must(err)
	defer obs.Close()
	base := func(i int) map[string]any {
		s := scens[i]
		return map[string]any{"id": i, "dir": s.Dir, "extId": s.ExtId, "wrap": s.Wrap, "shape": s.Shape, "rootErr": s.RootErr, "extErr": s.ExtErr, "rootCtx": s.RootCtx, "extCtx": s.ExtCtx, "declB": s.DeclB, "under": s.Under, "declL": s.DeclL, "declH": s.DeclH}
	}
	nOK := 0
	for i := range scens {
		o := byProg[i]
		r := base(i)
		r["exec"] = false
		if o == nil {
			r["gen"], r["why"], r["compiles"], r["apiOK"], r["imports"], r["decls"] = "missing", "", false, false, []string{}, []string{}
			obs.Write(r)
			continue
		}
		why := ""
		if o.Gen == "panic" {
			why = hx.PanicClass(o.Why)
		}
		if o.Gen == "ok" {
			nOK++
		}
		r["gen"], r["why"], r["compiles"], r["apiOK"], r["comperr"], r["diag"] = o.Gen, why, badComp[i] == "", badAPI[i] == "", badComp[i]+badAPI[i], firstLine(o.Why)
		r["imports"], r["decls"] = hx.DescribeFiles(o.Files, map[string]string{mod + "/" + progDir(i, scens[i]): "user", mod + "/wx": "wrap-pkg"})
		obs.Write(r)
	}
	nExec := 0
	for _, d := range recs {
		i := int(d["id"].(float64))
		j := int(d["j"].(float64))
		s := scens[i]
		r := base(i)
		per := 1
		if s.ExtErr {
			per = 2
		}
		var in any
		hx.Must(json.Unmarshal(s.Ins[j/per], &in))
		r["exec"], r["in"], r["faults"], r["panic"] = true, in, s.ExtErr && j%per == 1, d["panic"] == true
		r["err"] = ""
		r["path"] = []string{}
		if e, _ := d["err"].(string); e != "" {
			if strings.HasPrefix(e, "path:") {
				parts := strings.SplitN(strings.TrimPrefix(e, "path:"), "|", 2)
				if parts[0] != "" {
					r["path"] = strings.Split(parts[0], "/")
				}
				e = parts[1]
			}
			// wrapErrors: "error setting field F: error setting index 1: <cause>", one prefix per method
			chain := []string{}
			for {
				if rest, ok := strings.CutPrefix(e, "error setting field "); ok {
					if k := strings.Index(rest, ": "); k >= 0 {
						chain = append(chain, rest[:k])
						e = rest[k+2:]
						continue
					}
				}
				if rest, ok := strings.CutPrefix(e, "error setting index "); ok {
					if k := strings.Index(rest, ": "); k >= 0 {
						chain = append(chain, "["+rest[:k]+"]")
						e = rest[k+2:]
						continue
					}
				}
				break
			}
			if len(chain) > 0 {
				r["path"] = chain
			}
			r["err"] = strings.TrimPrefix(e, "inj:")
		}
		r["out"] = map[string]any{"k": "nil"}
		if outs, okk := d["outs"].([]any); okk && len(outs) > 0 {
			r["out"] = stripLabels(outs[0])
		}
		obs.Write(r)
		nExec++
	}
	if *traceFile != "" {
		tw, err := hx.NewNDWriter(*traceFile)
		hx.Must(err)
		for _, ev := range events {
			tw.Write(ev)
		}
		tw.Close()
	}
	js, _ := json.Marshal(map[string]any{"scenarios": len(scens), "generated": nOK, "uncompilable": len(badComp), "api_mismatch": len(badAPI), "executions": nExec,
		"gen_s": tGen.Seconds(), "build_s": tBuild.Seconds(), "exec_s": tExec.Seconds(), "events": len(events)})
	fmt.Println("HARNESS-SUMMARY " + string(js))
}
