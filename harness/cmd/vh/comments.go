package main

import (
	"encoding/json"
	"flag"
	"fmt"
	"os"
	"path/filepath"
	"strings"
	"sync"
	"time"

	"github.com/jmattheis/goverter/comments"
	"github.com/jmattheis/goverter/config"
	"verifharness/hx"
)

type comScen struct {
	Kind    string   `json:"kind"`
	Attach  string   `json:"attach"`
	Group   []string `json:"group"`
	MGroup  []string `json:"mgroup"`
	MAttach string   `json:"mattach"`
	Expect  string   `json:"expect"`
}

func renderComment(items []string, indent string) string {
	var b strings.Builder
	for _, it := range items {
		b.WriteString(indent + it + "\n")
	}
	return b.String()
}

// renderDecl writes one scenario as a Go file (one declaration under test per file).
func renderDecl(i int, s comScen) string {
	doc, detached, trailing, inside := "", "", "", ""
	switch s.Attach {
	case "doc":
		doc = renderComment(s.Group, "")
	case "detached":
		detached = renderComment(s.Group, "") + "\n"
	case "trailing":
		if len(s.Group) > 0 {
			trailing = " " + s.Group[0] + "\n" + renderComment(s.Group[1:], "")
		}
	case "inside":
		inside = renderComment(s.Group, "\t")
	}
	m := renderComment(s.MGroup, "\t")
	mtrail := ""
	switch s.MAttach {
	case "detached":
		if m != "" {
			m += "\n"
		}
	case "trailing":
		m = ""
		if len(s.MGroup) > 0 {
			mtrail = " " + s.MGroup[0] + "\n" + renderComment(s.MGroup[1:], "\t")
		}
	}
	var body string
	switch s.Kind {
	case "type-single":
		body = fmt.Sprintf("%s%stype C%d interface {\n%s\tM(source int) int%s\n%s}%s\n", detached, doc, i, m, mtrail, inside, trailing)
	case "type-spec":
		body = fmt.Sprintf("type (\n%s%s\tC%d interface {\n%s\t\tM(source int) int\n%s\t}%s\n)\n", strings.ReplaceAll(detached, "\n\n", "\n\n"), indentAll(doc), i, m, inside, trailing)
	case "type-group1":
		body = fmt.Sprintf("%s%stype (\n\tC%d interface {\n%s\t\tM(source int) int\n%s\t}\n)%s\n", detached, doc, i, m, inside, trailing)
	case "type-group2":
		body = fmt.Sprintf("%s%stype (\n\tC%d interface {\n%s\t\tM(source int) int\n%s\t}\n\tD%d interface {\n\t\tM(source string) string\n\t}\n)%s\n", detached, doc, i, m, inside, i, trailing)
	case "type-struct":
		body = fmt.Sprintf("%s%stype C%d struct {\n%s\tF int\n%s}%s\n", detached, doc, i, m, inside, trailing)
	case "var-block":
		body = fmt.Sprintf("%s%svar (\n%s\tV%d func(source int) int%s\n%s)%s\n", detached, doc, m, i, mtrail, inside, trailing)
	case "var-single":
		body = fmt.Sprintf("%s%svar V%d func(source int) int%s\n%s", detached, doc, i, trailing, strings.ReplaceAll(inside, "\t", ""))
	case "const":
		body = fmt.Sprintf("%s%sconst K%d = 1%s\n%s", detached, doc, i, trailing, strings.ReplaceAll(inside, "\t", ""))
	case "func":
		body = fmt.Sprintf("%s%sfunc F%d() {\n%s}%s\n", detached, doc, i, inside, trailing)
	case "import":
		body = fmt.Sprintf("%s%simport \"fmt\"%s\n%s\nvar _ = fmt.Sprint\n", detached, doc, trailing, strings.ReplaceAll(inside, "\t", ""))
	}
	return "package p\n\n" + body
}

func indentAll(s string) string {
	if s == "" {
		return s
	}
	lines := strings.Split(strings.TrimSuffix(s, "\n"), "\n")
	for i := range lines {
		lines[i] = "\t" + lines[i]
	}
	return strings.Join(lines, "\n") + "\n"
}

type comFound struct {
	Vars   bool     `json:"vars"`
	Lines  []string `json:"lines"`
	MLines []string `json:"mlines"`
}

func parseDocs(dir string) (res []config.RawConverter, err error, pan any) {
	defer func() {
		if r := recover(); r != nil {
			pan = r
		}
	}()
	res, err = comments.ParseDocs(comments.ParseDocsConfig{PackagePattern: []string{"."}, WorkingDir: dir, BuildTags: "goverter"})
	return
}

func nz(l []string) []string {
	if l == nil {
		return []string{}
	}
	return l
}

func foundOf(convs []config.RawConverter, file string) []comFound {
	out := []comFound{}
	for _, c := range convs {
		if filepath.Base(c.FileName) != file {
			continue
		}
		f := comFound{Vars: c.InterfaceName == "", Lines: nz(c.Converter.Lines), MLines: []string{}}
		for name, m := range c.Methods {
			if name == "M" || strings.HasPrefix(name, "V") {
				f.MLines = nz(m.Lines)
			}
		}
		out = append(out, f)
	}
	return out
}

// cmdComments: C19. Every layout is one file; layouts expected to be rejected get a package of their own.
func cmdComments(args []string) {
	fs := flag.NewFlagSet("comments", flag.ExitOnError)
	scenFile := fs.String("scen", "", "")
	obsFile := fs.String("obs", "", "")
	work := fs.String("work", "", "")
	fs.Parse(args)
	var scens []comScen
	hx.Must(hx.ReadNDJSON(*scenFile, func(i int, b []byte) error {
		var s comScen
		if err := json.Unmarshal(b, &s); err != nil {
			return err
		}
		scens = append(scens, s)
		return nil
	}))
	t0 := time.Now()
	hx.WriteTree(*work, map[string]string{"go.mod": "module v.test/c\ngo 1.18\n"})
	recs := make([]map[string]any, len(scens))
	mk := func(i int, outcome string, found []comFound, diag string) map[string]any {
		s := scens[i]
		return map[string]any{"id": i, "kind": s.Kind, "attach": s.Attach, "group": nz(s.Group), "mgroup": nz(s.MGroup), "mattach": s.MAttach, "outcome": outcome, "found": found, "diag": firstLine(diag)}
	}
	// batches of layouts that are expected to be accepted
	var single []int
	const batch = 400
	var okIdx []int
	for i, s := range scens {
		if s.Expect == "error" {
			single = append(single, i)
		} else {
			okIdx = append(okIdx, i)
		}
	}
	var mu sync.Mutex
	var wg sync.WaitGroup
	sem := make(chan struct{}, 12)
	runSingle := func(i int) {
		defer wg.Done()
		sem <- struct{}{}
		defer func() { <-sem }()
		dir := filepath.Join(*work, fmt.Sprintf("e%d", i))
		hx.WriteTree(dir, map[string]string{fmt.Sprintf("s%d.go", i): renderDecl(i, scens[i])})
		convs, err, pan := parseDocs(dir)
		os.RemoveAll(dir)
		switch {
		case pan != nil:
			recs[i] = mk(i, "panic", []comFound{}, fmt.Sprint(pan))
		case err != nil:
			recs[i] = mk(i, "error", []comFound{}, err.Error())
		default:
			recs[i] = mk(i, "ok", foundOf(convs, fmt.Sprintf("s%d.go", i)), "")
		}
	}
	for b := 0; b < len(okIdx); b += batch {
		end := b + batch
		if end > len(okIdx) {
			end = len(okIdx)
		}
		part := okIdx[b:end]
		wg.Add(1)
		go func(k int, part []int) {
			defer wg.Done()
			sem <- struct{}{}
			dir := filepath.Join(*work, fmt.Sprintf("b%d", k))
			files := map[string]string{}
			for _, i := range part {
				files[fmt.Sprintf("s%d.go", i)] = renderDecl(i, scens[i])
			}
			hx.WriteTree(dir, files)
			convs, err, pan := parseDocs(dir)
			os.RemoveAll(dir)
			<-sem
			if err != nil || pan != nil {
				// some layout of the batch was rejected: judge each of them alone
				mu.Lock()
				for _, i := range part {
					wg.Add(1)
					go runSingle(i)
				}
				mu.Unlock()
				return
			}
			for _, i := range part {
				recs[i] = mk(i, "ok", foundOf(convs, fmt.Sprintf("s%d.go", i)), "")
			}
		}(b/batch, part)
	}
	for _, i := range single {
		wg.Add(1)
		go runSingle(i)
	}
	wg.Wait()
	obs, err := hx.NewNDWriter(*obsFile)
	hx.Must(err)
	nerr := 0
	for _, r := range recs {
		if r["outcome"] == "error" {
			nerr++
		}
		obs.Write(r)
	}
	obs.Close()
	js, _ := json.Marshal(map[string]any{"scenarios": len(scens), "rejected": nerr, "run_s": time.Since(t0).Seconds()})
	fmt.Println("HARNESS-SUMMARY " + string(js))
}
