package main

import (
	"encoding/json"
	"flag"
	"fmt"
	"path/filepath"
	"regexp"
	"strings"
	"time"

	"verifharness/hx"
)

type member struct {
	N string `json:"n"`
	V int    `json:"v"`
}

type enumScen struct {
	Kind    string   `json:"kind"`
	Tr      []string `json:"tr"`
	Tr2     []string `json:"tr2"`
	Same    bool     `json:"same"`
	Src     []member `json:"src"`
	Tgt     []member `json:"tgt"`
	Map     []string `json:"map"`
	Unknown string   `json:"unknown"`
	RootErr bool     `json:"rootErr"`
	Pos     string   `json:"pos"`
	EnumOn  bool     `json:"enumOn"`
	Excl    string   `json:"excl"`
	OK      bool     `json:"ok"`
	Inputs  []int    `json:"inputs"`
}

var p2ident = regexp.MustCompile(`\bp2([A-Z.])`)

func enumLit(kind string, v int) string {
	switch kind {
	case "float":
		return fmt.Sprintf("%d.5", v)
	case "floatclose":
		return fmt.Sprintf("1.500000%d", v)
	case "string":
		return fmt.Sprintf("%q", string(rune('x'+v%3))+fmt.Sprint(v/3))
	}
	return fmt.Sprint(v)
}

func enumDecl(pkg, kind string, ms []member) string {
	var b strings.Builder
	under := map[string]string{"float": "float64", "floatclose": "float64", "string": "string"}[kind]
	if under == "" {
		under = "int"
	}
	b.WriteString("package " + pkg + "\n\ntype E " + under + "\n\nconst (\n")
	for _, m := range ms {
		fmt.Fprintf(&b, "\t%s E = %s\n", m.N, enumLit(kind, m.V))
	}
	b.WriteString(")\n")
	return b.String()
}

// cmdEnum: F-Enum family (C08). Enum types live in their own packages (members are package-level constants).
func cmdEnum(args []string) {
	fs := flag.NewFlagSet("enum", flag.ExitOnError)
	scenFile := fs.String("scen", "", "")
	obsFile := fs.String("obs", "", "")
	work := fs.String("work", "", "")
	fs.Parse(args)
	var scens []enumScen
	hx.Must(hx.ReadNDJSON(*scenFile, func(i int, b []byte) error {
		var s enumScen
		if err := json.Unmarshal(b, &s); err != nil {
			return err
		}
		scens = append(scens, s)
		return nil
	}))
	b := hx.NewBatch(*work)
	b.WriteGoMod()
	files := map[string]string{}
	pkgOf := map[string]string{}
	enumPkg := func(prefix, kind string, ms []member) string {
		key, _ := json.Marshal(ms)
		k := prefix + kind + string(key)
		if p, ok := pkgOf[k]; ok {
			return p
		}
		p := fmt.Sprintf("%s%d", prefix, len(pkgOf))
		pkgOf[k] = p
		files[p+"/e.go"] = enumDecl(p, kind, ms)
		return p
	}
	var src strings.Builder
	imports := map[string]bool{}
	decl := make([]string, len(scens))
	var typeDecls strings.Builder
	for i, s := range scens {
		sp, tp := enumPkg("es", s.Kind, s.Src), enumPkg("et", s.Kind, s.Tgt)
		if s.Same {
			tp = sp
		}
		start := src.Len()
		imports[sp], imports[tp] = true, true
		st, tt := sp+".E", tp+".E"
		switch s.Pos {
		case "field":
			fmt.Fprintf(&typeDecls, "\ntype SF%d struct{ F %s }\ntype TF%d struct{ F %s }\n", i, st, i, tt)
			st, tt = fmt.Sprintf("SF%d", i), fmt.Sprintf("TF%d", i)
		case "elem":
			st, tt = "[]"+st, "[]"+tt
		}
		src.WriteString("\n// goverter:converter\n")
		if s.Unknown != "" {
			src.WriteString("// goverter:enum:unknown " + s.Unknown + "\n")
		}
		switch {
		case s.Excl == "self":
			fmt.Fprintf(&src, "// goverter:enum:exclude %s/%s:E\n// goverter:enum:exclude %s/%s:E\n", b.Mod, sp, b.Mod, tp)
		case s.Excl == "other":
			// a type of the same name in another package, and another name in the packages of the pair
			fmt.Fprintf(&src, "// goverter:enum:exclude %s/zz:E\n// goverter:enum:exclude %s/%s:Other\n// goverter:enum:exclude %s/%s:Other\n", b.Mod, b.Mod, sp, b.Mod, tp)
		case !s.EnumOn:
			src.WriteString("// goverter:enum no\n")
		}
		fmt.Fprintf(&src, "// goverter:output:file ../gen/c%d.go\n// goverter:output:package %s/gen\ntype C%d interface {\n", i, b.Mod, i)
		if len(s.Map) == 2 {
			fmt.Fprintf(&src, "\t// goverter:enum:map %s %s\n", s.Map[0], s.Map[1])
		}
		if len(s.Tr) == 2 {
			fmt.Fprintf(&src, "\t// goverter:enum:transform regex %s %s\n", s.Tr[0], s.Tr[1])
		}
		if len(s.Tr2) == 2 {
			fmt.Fprintf(&src, "\t// goverter:enum:transform regex %s %s\n", s.Tr2[0], s.Tr2[1])
		}
		res := tt
		if s.RootErr {
			res = "(" + tt + ", error)"
		}
		fmt.Fprintf(&src, "\tConv(source %s) %s\n}\n", st, res)
		decl[i] = src.String()[start:]
	}
	// the same converters once more in reverse order (package p2, output gen2): the outcome must not depend on the order
	var rev strings.Builder
	// ... with the converters that switch enum handling off first, then the others in reverse
	order := []int{}
	for i := range scens {
		if !scens[i].EnumOn {
			order = append(order, i)
		}
	}
	for i := len(scens) - 1; i >= 0; i-- {
		if scens[i].EnumOn {
			order = append(order, i)
		}
	}
	for _, i := range order {
		rev.WriteString(strings.ReplaceAll(strings.ReplaceAll(decl[i], "../gen/c", "../gen2/c"), b.Mod+"/gen\n", b.Mod+"/gen2\n"))
	}
	head := "package p\n\nimport (\n"
	for p := range imports {
		head += "\t\"" + b.Mod + "/" + p + "\"\n"
	}
	head += ")\n"
	files["p/in.go"] = head + typeDecls.String() + src.String()
	files["p2/in.go"] = strings.Replace(head, "package p\n", "package p2\n", 1) + typeDecls.String() + rev.String()
	hx.WriteTree(*work, files)
	t0 := time.Now()
	// two separate loads: each starts from fresh type objects, so a leak through process-wide state shows as order dependence
	all, err := hx.GenerateEach(hx.GenConfig(*work, []string{"./p"}, nil))
	hx.Must(err)
	all2, err := hx.GenerateEach(hx.GenConfig(*work, []string{"./p2"}, nil))
	hx.Must(err)
	all = append(all, all2...)
	b.Timing["gen"] = time.Since(t0)
	if len(all) != 2*len(scens) {
		panic("result count mismatch")
	}
	outs := make([]hx.Outcome, len(scens))
	orderOK := make([]bool, len(scens))
	revOut := map[string]hx.Outcome{}
	k := 0
	for _, o := range all {
		if strings.Contains(o.File, "/p2/") {
			revOut[o.Name] = o
		} else {
			outs[k] = o
			k++
		}
	}
	norm := func(files map[string][]byte) string {
		var sb strings.Builder
		for _, c := range files {
			t := strings.ReplaceAll(strings.ReplaceAll(string(c), "gen2", "gen"), b.Mod+"/p2", b.Mod+"/p")
			t = strings.ReplaceAll(strings.ReplaceAll(t, "import p2 ", "import p "), "\tp2 \"", "\tp \"")
			sb.WriteString(p2ident.ReplaceAllString(t, "p$1"))
		}
		return sb.String()
	}
	for i, o := range outs {
		r := revOut[o.Name]
		orderOK[i] = r.Gen == o.Gen && (o.Gen != "ok" || norm(r.Files) == norm(o.Files))
	}
	// driver scenario file: literal integer inputs shaped by position
	drvScen := filepath.Join(*work, "drv.ndjson")
	w, err := hx.NewNDWriter(drvScen)
	hx.Must(err)
	for i, o := range outs {
		var ins []any
		if o.Gen == "ok" {
			b.WriteOutputs(i, o.Files)
			b.Reg[i] = fmt.Sprintf("reflect.ValueOf((&gen.C%dImpl{}).Conv)", i)
			for _, x := range scens[i].Inputs {
				v := map[string]any{"k": "b", "tok": "#" + strings.Trim(enumLit(scens[i].Kind, x), "\"")}
				switch scens[i].Pos {
				case "field":
					v = map[string]any{"k": "st", "fs": []any{v}}
				case "elem":
					v = map[string]any{"k": "s", "a": "i", "es": []any{v}}
				}
				ins = append(ins, v)
			}
		}
		if ins == nil {
			ins = []any{}
		}
		w.Write(map[string]any{"ins": ins, "lit": true})
	}
	w.Close()
	hx.Must(b.BuildDriver(nil, false))
	obs, err := hx.NewNDWriter(*obsFile)
	hx.Must(err)
	defer obs.Close()
	base := func(i int) map[string]any {
		s := scens[i]
		m := s.Map
		if m == nil {
			m = []string{}
		}
		tr := s.Tr
		if tr == nil {
			tr = []string{}
		}
		tr2 := s.Tr2
		if tr2 == nil {
			tr2 = []string{}
		}
		return map[string]any{"id": i, "kind": s.Kind, "tr": tr, "tr2": tr2, "same": s.Same, "src": s.Src, "tgt": s.Tgt, "map": m, "unknown": s.Unknown, "rootErr": s.RootErr, "pos": s.Pos, "enumOn": s.EnumOn}
	}
	nOK := 0
	for i, o := range outs {
		r := base(i)
		_, badc := b.BadComp[i]
		why := ""
		if o.Gen == "panic" {
			why = hx.PanicClass(o.Why)
		}
		if o.Gen == "ok" {
			nOK++
		}
		r["exec"], r["gen"], r["why"], r["compiles"], r["diag"], r["orderOK"] = false, o.Gen, why, !badc, firstLine(o.Why), orderOK[i]
		roles := map[string]string{b.Mod + "/p": "user"}
		for k, pkg := range pkgOf {
			if strings.HasPrefix(k, "es") {
				roles[b.Mod+"/"+pkg] = "src-enum"
			} else {
				roles[b.Mod+"/"+pkg] = "tgt-enum"
			}
		}
		r["imports"], r["decls"] = hx.DescribeFiles(o.Files, roles)
		obs.Write(r)
	}
	recs, _, err := b.RunDriver(drvScen, "seq")
	hx.Must(err)
	nExec := 0
	for _, d := range recs {
		i := int(d["id"].(float64))
		j := int(d["j"].(float64))
		r := base(i)
		r["exec"], r["x"] = true, scens[i].Inputs[j]
		switch {
		case d["panic"] == true:
			r["res"] = map[string]any{"k": "panic"}
		case d["iserr"] == true:
			r["res"] = map[string]any{"k": "err"}
		default:
			out := d["out"].(map[string]any)
			switch scens[i].Pos {
			case "field":
				out = out["fs"].([]any)[0].(map[string]any)
			case "elem":
				out = out["es"].([]any)[0].(map[string]any)
			}
			v := -1
			tok := out["tok"].(string)
			kind := scens[i].Kind
			switch {
			case kind == "int" || kind == "":
				if tok == "z" {
					v = 0
				} else {
					fmt.Sscanf(tok, "#%d", &v)
				}
			case tok == "z" || tok == "#" || tok == "#0":
				v = -2 // the zero value 0.0 / ""
			default:
				for cand := 0; cand < 10; cand++ {
					if tok == "#"+strings.Trim(enumLit(kind, cand), "\"") {
						v = cand
					}
					if kind == "floatclose" {
						// floats come back in their shortest spelling: compare the numbers
						var got, want float64
						if _, e1 := fmt.Sscanf(strings.TrimPrefix(tok, "#"), "%g", &got); e1 == nil {
							fmt.Sscanf(enumLit(kind, cand), "%g", &want)
							if got == want {
								v = cand
							}
						}
					}
				}
			}
			r["res"] = map[string]any{"k": "val", "v": v}
		}
		obs.Write(r)
		nExec++
	}
	js, _ := json.Marshal(map[string]any{"scenarios": len(scens), "generated": nOK, "uncompilable": len(b.BadComp), "executions": nExec, "enum_packages": len(pkgOf),
		"gen_s": b.Timing["gen"].Seconds(), "build_s": b.Timing["build"].Seconds(), "exec_s": b.Timing["exec"].Seconds()})
	fmt.Println("HARNESS-SUMMARY " + string(js))
}
