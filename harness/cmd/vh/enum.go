package main

import (
	"encoding/json"
	"flag"
	"fmt"
	"path/filepath"
	"regexp"
	"strings"
	"time"

	"verifharness/hx"
)

type member struct {
	N string `json:"n"`
	V int    `json:"v"`
}

type enumScen struct {
	Tr      []string `json:"tr"`
	Same    bool     `json:"same"`
	Src     []member `json:"src"`
	Tgt     []member `json:"tgt"`
	Map     []string `json:"map"`
	Unknown string   `json:"unknown"`
	RootErr bool     `json:"rootErr"`
	Pos     string   `json:"pos"`
	EnumOn  bool     `json:"enumOn"`
	OK      bool     `json:"ok"`
	Inputs  []int    `json:"inputs"`
}

var p2ident = regexp.MustCompile(`\bp2([A-Z.])`)

func enumDecl(pkg string, ms []member) string {
	var b strings.Builder
	b.WriteString("package " + pkg + "\n\ntype E int\n\nconst (\n")
	for _, m := range ms {
		fmt.Fprintf(&b, "\t%s E = %d\n", m.N, m.V)
	}
	b.WriteString(")\n")
	return b.String()
}

// cmdEnum: F-Enum family (C08). Enum types live in their own packages (members are package-level constants).
func cmdEnum(args []string) {
	fs := flag.NewFlagSet("enum", flag.ExitOnError)
	scenFile := fs.String("scen", "", "")
	obsFile := fs.String("obs", "", "")
	work := fs.String("work", "", "")
	fs.Parse(args)
	var scens []enumScen
	hx.Must(hx.ReadNDJSON(*scenFile, func(i int, b []byte) error {
		var s enumScen
		if err := json.Unmarshal(b, &s); err != nil {
			return err
		}
		scens = append(scens, s)
		return nil
	}))
	b := hx.NewBatch(*work)
	b.WriteGoMod()
	files := map[string]string{}
	pkgOf := map[string]string{}
	enumPkg := func(prefix string, ms []member) string {
		key, _ := json.Marshal(ms)
		k := prefix + string(key)
		if p, ok := pkgOf[k]; ok {
			return p
		}
		p := fmt.Sprintf("%s%d", prefix, len(pkgOf))
		pkgOf[k] = p
		files[p+"/e.go"] = enumDecl(p, ms)
		return p
	}
	var src strings.Builder
	imports := map[string]bool{}
	decl := make([]string, len(scens))
	var typeDecls strings.Builder
	for i, s := range scens {
		sp, tp := enumPkg("es", s.Src), enumPkg("et", s.Tgt)
		if s.Same {
			tp = sp
		}
		start := src.Len()
		imports[sp], imports[tp] = true, true
		st, tt := sp+".E", tp+".E"
		switch s.Pos {
		case "field":
			fmt.Fprintf(&typeDecls, "\ntype SF%d struct{ F %s }\ntype TF%d struct{ F %s }\n", i, st, i, tt)
			st, tt = fmt.Sprintf("SF%d", i), fmt.Sprintf("TF%d", i)
		case "elem":
			st, tt = "[]"+st, "[]"+tt
		}
		src.WriteString("\n// goverter:converter\n")
		if s.Unknown != "" {
			src.WriteString("// goverter:enum:unknown " + s.Unknown + "\n")
		}
		if !s.EnumOn {
			src.WriteString("// goverter:enum no\n")
		}
		fmt.Fprintf(&src, "// goverter:output:file ../gen/c%d.go\n// goverter:output:package %s/gen\ntype C%d interface {\n", i, b.Mod, i)
		if len(s.Map) == 2 {
			fmt.Fprintf(&src, "\t// goverter:enum:map %s %s\n", s.Map[0], s.Map[1])
		}
		if len(s.Tr) == 2 {
			fmt.Fprintf(&src, "\t// goverter:enum:transform regex %s %s\n", s.Tr[0], s.Tr[1])
		}
		res := tt
		if s.RootErr {
			res = "(" + tt + ", error)"
		}
		fmt.Fprintf(&src, "\tConv(source %s) %s\n}\n", st, res)
		decl[i] = src.String()[start:]
	}
	// the same converters once more in reverse order (package p2, output gen2): the outcome must not depend on the order
	var rev strings.Builder
	for i := len(scens) - 1; i >= 0; i-- {
		rev.WriteString(strings.ReplaceAll(strings.ReplaceAll(decl[i], "../gen/c", "../gen2/c"), b.Mod+"/gen\n", b.Mod+"/gen2\n"))
	}
	head := "package p\n\nimport (\n"
	for p := range imports {
		head += "\t\"" + b.Mod + "/" + p + "\"\n"
	}
	head += ")\n"
	files["p/in.go"] = head + typeDecls.String() + src.String()
	files["p2/in.go"] = strings.Replace(head, "package p\n", "package p2\n", 1) + typeDecls.String() + rev.String()
	hx.WriteTree(*work, files)
	t0 := time.Now()
	all, err := hx.GenerateEach(hx.GenConfig(*work, []string{"./p", "./p2"}, nil))
	hx.Must(err)
	b.Timing["gen"] = time.Since(t0)
	if len(all) != 2*len(scens) {
		panic("result count mismatch")
	}
	outs := make([]hx.Outcome, len(scens))
	orderOK := make([]bool, len(scens))
	revOut := map[string]hx.Outcome{}
	k := 0
	for _, o := range all {
		if strings.Contains(o.File, "/p2/") {
			revOut[o.Name] = o
		} else {
			outs[k] = o
			k++
		}
	}
	norm := func(files map[string][]byte) string {
		var sb strings.Builder
		for _, c := range files {
			t := strings.ReplaceAll(strings.ReplaceAll(string(c), "gen2", "gen"), b.Mod+"/p2", b.Mod+"/p")
			t = strings.ReplaceAll(strings.ReplaceAll(t, "import p2 ", "import p "), "\tp2 \"", "\tp \"")
			sb.WriteString(p2ident.ReplaceAllString(t, "p$1"))
		}
		return sb.String()
	}
	for i, o := range outs {
		r := revOut[o.Name]
		orderOK[i] = r.Gen == o.Gen && (o.Gen != "ok" || norm(r.Files) == norm(o.Files))
	}
	// driver scenario file: literal integer inputs shaped by position
	drvScen := filepath.Join(*work, "drv.ndjson")
	w, err := hx.NewNDWriter(drvScen)
	hx.Must(err)
	for i, o := range outs {
		var ins []any
		if o.Gen == "ok" {
			b.WriteOutputs(i, o.Files)
			b.Reg[i] = fmt.Sprintf("reflect.ValueOf((&gen.C%dImpl{}).Conv)", i)
			for _, x := range scens[i].Inputs {
				v := map[string]any{"k": "b", "tok": fmt.Sprintf("#%d", x)}
				switch scens[i].Pos {
				case "field":
					v = map[string]any{"k": "st", "fs": []any{v}}
				case "elem":
					v = map[string]any{"k": "s", "a": "i", "es": []any{v}}
				}
				ins = append(ins, v)
			}
		}
		if ins == nil {
			ins = []any{}
		}
		w.Write(map[string]any{"ins": ins, "lit": true})
	}
	w.Close()
	hx.Must(b.BuildDriver(nil, false))
	obs, err := hx.NewNDWriter(*obsFile)
	hx.Must(err)
	defer obs.Close()
	base := func(i int) map[string]any {
		s := scens[i]
		m := s.Map
		if m == nil {
			m = []string{}
		}
		tr := s.Tr
		if tr == nil {
			tr = []string{}
		}
		return map[string]any{"id": i, "tr": tr, "same": s.Same, "src": s.Src, "tgt": s.Tgt, "map": m, "unknown": s.Unknown, "rootErr": s.RootErr, "pos": s.Pos, "enumOn": s.EnumOn}
	}
	nOK := 0
	for i, o := range outs {
		r := base(i)
		_, badc := b.BadComp[i]
		why := ""
		if o.Gen == "panic" {
			why = hx.PanicClass(o.Why)
		}
		if o.Gen == "ok" {
			nOK++
		}
		r["exec"], r["gen"], r["why"], r["compiles"], r["diag"], r["orderOK"] = false, o.Gen, why, !badc, firstLine(o.Why), orderOK[i]
		roles := map[string]string{b.Mod + "/p": "user"}
		for k, pkg := range pkgOf {
			if strings.HasPrefix(k, "es") {
				roles[b.Mod+"/"+pkg] = "src-enum"
			} else {
				roles[b.Mod+"/"+pkg] = "tgt-enum"
			}
		}
		r["imports"], r["decls"] = hx.DescribeFiles(o.Files, roles)
		obs.Write(r)
	}
	recs, _, err := b.RunDriver(drvScen, "seq")
	hx.Must(err)
	nExec := 0
	for _, d := range recs {
		i := int(d["id"].(float64))
		j := int(d["j"].(float64))
		r := base(i)
		r["exec"], r["x"] = true, scens[i].Inputs[j]
		switch {
		case d["panic"] == true:
			r["res"] = map[string]any{"k": "panic"}
		case d["iserr"] == true:
			r["res"] = map[string]any{"k": "err"}
		default:
			out := d["out"].(map[string]any)
			switch scens[i].Pos {
			case "field":
				out = out["fs"].([]any)[0].(map[string]any)
			case "elem":
				out = out["es"].([]any)[0].(map[string]any)
			}
			var v int
			tok := out["tok"].(string)
			if tok == "z" {
				v = 0
			} else {
				fmt.Sscanf(tok, "#%d", &v)
			}
			r["res"] = map[string]any{"k": "val", "v": v}
		}
		obs.Write(r)
		nExec++
	}
	js, _ := json.Marshal(map[string]any{"scenarios": len(scens), "generated": nOK, "uncompilable": len(b.BadComp), "executions": nExec, "enum_packages": len(pkgOf),
		"gen_s": b.Timing["gen"].Seconds(), "build_s": b.Timing["build"].Seconds(), "exec_s": b.Timing["exec"].Seconds()})
	fmt.Println("HARNESS-SUMMARY " + string(js))
}
