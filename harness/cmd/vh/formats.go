package main

import (
	"encoding/json"
	"flag"
	"fmt"
	"go/ast"
	"go/parser"
	"go/token"
	"os"
	"path/filepath"
	"regexp"
	"sort"
	"strconv"
	"strings"
	"time"

	"verifharness/hx"
)

// Output formats family (C01 / C18): one package per program; the struct and function formats write to ./out/gen.go,
// the variables format to its default <file>.gen.go next to the declaration.

type fmtScen struct {
	Fmt     string `json:"fmt"`
	Bk      string `json:"bk"`
	Sibling bool   `json:"sibling"`
	Ext     string `json:"ext"`
	RootErr bool   `json:"rootErr"`
	How     string `json:"how"`
	OK      bool   `json:"ok"`
}

func fmtSource(i int, s fmtScen, mod string) string {
	var b strings.Builder
	fmt.Fprintf(&b, "package f%d\n\n", i)
	bs, bt := "B", "B2"
	switch s.Bk {
	case "ptr":
		bs, bt = "*B", "*B2"
	case "slice":
		bs, bt = "[]B", "[]B2"
	}
	fmt.Fprintf(&b, "type A struct {\n\tV int\n\tB %s\n}\ntype A2 struct {\n\tV string\n\tB %s\n}\ntype B struct{ V int }\ntype B2 struct{ V %s }\n\n", bs, bt, map[bool]string{true: "string", false: "int"}[s.How != "mapfunc"])
	b.WriteString("func mark(v int) string {\n\tswitch v {\n\tcase 5:\n\t\treturn \"E(5)\"\n\tcase 7:\n\t\treturn \"E(7)\"\n\t}\n\treturn \"E(?)\"\n}\n\n")
	switch s.Ext {
	case "plain":
		b.WriteString("func E(v int) string { return mark(v) }\n")
	case "err":
		b.WriteString("func E(v int) (string, error) { return mark(v), nil }\n")
	case "iface":
		// the converter interface as first parameter; for the formats without a converter value the interface still exists as a type
		b.WriteString("type CI interface {\n\tConv(source A) A2\n}\n\nfunc E(c CI, v int) string { return mark(v) }\n")
	}
	res := func(t string) string {
		if s.RootErr {
			return "(" + t + ", error)"
		}
		return t
	}
	switch s.Fmt {
	case "variables":
		if s.How == "mapfunc" {
			b.WriteString("\n// goverter:variables\nvar (\n\t// goverter:map V | E\n")
		} else {
			b.WriteString("\n// goverter:variables\n// goverter:extend E\nvar (\n")
		}
		fmt.Fprintf(&b, "\tConv func(source A) %s\n", res("A2"))
		if s.Sibling {
			fmt.Fprintf(&b, "\tConvB func(source B) %s\n", res("B2"))
		}
		b.WriteString(")\n")
	default:
		b.WriteString("\n// goverter:converter\n")
		if s.Fmt == "function" {
			b.WriteString("// goverter:output:format function\n") // (must precede extend: the format decides how custom functions are parsed)
		}
		if s.How != "mapfunc" {
			b.WriteString("// goverter:extend E\n")
		}
		b.WriteString("// goverter:output:file ./out/gen.go\n")
		name := "C"
		if s.Ext == "iface" && s.Fmt == "struct" {
			name = "CI2"
		}
		_ = name
		b.WriteString("type C interface {\n")
		if s.How == "mapfunc" {
			b.WriteString("\t// goverter:map V | E\n")
		}
		fmt.Fprintf(&b, "\tConv(source A) %s\n", res("A2"))
		if s.Sibling {
			fmt.Fprintf(&b, "\tConvB(source B) %s\n", res("B2"))
		}
		b.WriteString("}\n")
	}
	out := b.String()
	if s.Ext == "iface" && s.Fmt != "variables" {
		// the custom function takes the converter interface itself (it exists as a type in the function format, too)
		out = strings.Replace(out, "type CI interface {\n\tConv(source A) A2\n}\n\nfunc E(c CI, v int)", "func E(c C, v int)", 1)
	}
	return out
}

func describeFormat(src []byte) map[string]int {
	d := map[string]int{"struct": 0, "method": 0, "func": 0, "init": 0, "other": 0}
	f, err := parser.ParseFile(token.NewFileSet(), "x.go", src, 0)
	if err != nil {
		d["other"] = 99
		return d
	}
	for _, decl := range f.Decls {
		switch x := decl.(type) {
		case *ast.FuncDecl:
			switch {
			case x.Recv != nil:
				d["method"]++
			case x.Name.Name == "init":
				d["init"]++
			default:
				d["func"]++
			}
		case *ast.GenDecl:
			if x.Tok == token.IMPORT {
				continue
			}
			if x.Tok == token.TYPE && len(x.Specs) == 1 {
				if ts, ok := x.Specs[0].(*ast.TypeSpec); ok {
					if _, ok := ts.Type.(*ast.StructType); ok {
						d["struct"]++
						continue
					}
				}
			}
			d["other"]++
		}
	}
	return d
}

var fmtCompErr = regexp.MustCompile(`(?m)^(?:\./)?(?:f|fapi)(\d+)/(?:[a-z]+/)*[a-z_.]+\.go:\d+:\d+: (.*)$`)

func cmdFormats(args []string) {
	fs := flag.NewFlagSet("formats", flag.ExitOnError)
	scenFile := fs.String("scen", "", "")
	obsFile := fs.String("obs", "", "")
	work := fs.String("work", "", "")
	fs.Parse(args)
	var scens []fmtScen
	hx.Must(hx.ReadNDJSON(*scenFile, func(i int, b []byte) error {
		var s fmtScen
		if err := json.Unmarshal(b, &s); err != nil {
			return err
		}
		scens = append(scens, s)
		return nil
	}))
	mod := "v.test/b"
	files := map[string]string{"go.mod": "module " + mod + "\ngo 1.18\n"}
	for i, s := range scens {
		files[fmt.Sprintf("f%d/in.go", i)] = fmtSource(i, s, mod)
	}
	hx.WriteTree(*work, files)
	t0 := time.Now()
	outs, err := hx.GenerateEach(hx.GenConfig(*work, []string{"./..."}, nil))
	hx.Must(err)
	tGen := time.Since(t0)
	byProg := make([]*hx.Outcome, len(scens))
	ok := map[int]bool{}
	desc := map[int]map[string]int{}
	pkgRe := regexp.MustCompile(`/f(\d+)/`)
	for k := range outs {
		o := &outs[k]
		m := pkgRe.FindStringSubmatch(o.File + "/")
		if m == nil {
			panic("cannot attribute outcome " + o.File)
		}
		idx, _ := strconv.Atoi(m[1])
		byProg[idx] = o
		if o.Gen == "ok" {
			d := map[string]int{"struct": 0, "method": 0, "func": 0, "init": 0, "other": 0}
			for p, c := range o.Files {
				hx.Must(os.MkdirAll(filepath.Dir(p), 0o755))
				hx.Must(os.WriteFile(p, c, 0o644))
				for k2, v := range describeFormat(c) {
					d[k2] += v
				}
			}
			desc[idx] = d
			ok[idx] = true
		}
	}
	// API assertions per program, in the shape of the format
	for i, s := range scens {
		if !ok[i] {
			continue
		}
		res := func(t string) string {
			if s.RootErr {
				return "(p." + t + ", error)"
			}
			return "p." + t
		}
		var body string
		switch s.Fmt {
		case "struct":
			body = fmt.Sprintf("import (\n\tp \"%s/f%d\"\n\tg \"%s/f%d/out\"\n)\n\nvar _ p.C = &g.CImpl{}\n", mod, i, mod, i)
		case "function":
			body = fmt.Sprintf("import (\n\tp \"%s/f%d\"\n\tg \"%s/f%d/out\"\n)\n\nvar _ func(p.A) %s = g.Conv\n", mod, i, mod, i, res("A2"))
			if s.Sibling {
				body += fmt.Sprintf("var _ func(p.B) %s = g.ConvB\n", res("B2"))
			}
		default:
			body = fmt.Sprintf("import p \"%s/f%d\"\n\nvar _ func(p.A) %s = p.Conv\n", mod, i, res("A2"))
		}
		hx.WriteTree(*work, map[string]string{fmt.Sprintf("fapi%d/api.go", i): fmt.Sprintf("//go:build !goverter\n\npackage fapi%d\n\n", i) + body})
	}
	badComp, badAPI := map[int]string{}, map[int]string{}
	drv := filepath.Join(*work, "drv")
	hx.Must(os.MkdirAll(drv, 0o755))
	hx.Must(os.WriteFile(filepath.Join(drv, "main.go"), []byte(hx.DriverSource), 0o644))
	var tBuild time.Duration
	for round := 0; ; round++ {
		var reg strings.Builder
		reg.WriteString("//go:build !goverter\n\npackage main\n\nimport (\n\t\"reflect\"\n")
		ids := []int{}
		for i := range scens {
			if ok[i] && badComp[i] == "" {
				ids = append(ids, i)
			}
		}
		sort.Ints(ids)
		for _, i := range ids {
			if scens[i].Fmt == "variables" {
				fmt.Fprintf(&reg, "\tg%d \"%s/f%d\"\n", i, mod, i)
			} else {
				fmt.Fprintf(&reg, "\tg%d \"%s/f%d/out\"\n", i, mod, i)
			}
			if badAPI[i] == "" {
				fmt.Fprintf(&reg, "\t_ \"%s/fapi%d\"\n", mod, i)
			}
		}
		reg.WriteString(")\n\nvar registry = map[int]reflect.Value{\n")
		for _, i := range ids {
			switch scens[i].Fmt {
			case "struct":
				fmt.Fprintf(&reg, "\t%d: reflect.ValueOf((&g%d.CImpl{}).Conv),\n", i, i)
			default:
				fmt.Fprintf(&reg, "\t%d: reflect.ValueOf(g%d.Conv),\n", i, i)
			}
		}
		reg.WriteString("}\n\nvar setFaults = map[int]func(bool){}\n")
		hx.Must(os.WriteFile(filepath.Join(drv, "registry.go"), []byte(reg.String()), 0o644))
		out, berr, d := hx.GoBuild(*work, "-gcflags=all=-e", "-o", "drv.bin", "./drv")
		tBuild += d
		if berr == nil {
			break
		}
		ms := fmtCompErr.FindAllStringSubmatch(out, -1)
		if len(ms) == 0 || round > 12 {
			panic("driver build failed (not attributable):\n" + out[:min(len(out), 3000)])
		}
		for _, m := range ms {
			id, _ := strconv.Atoi(m[1])
			if strings.Contains(m[0], "fapi"+m[1]+"/") {
				if badAPI[id] == "" {
					badAPI[id] = m[2]
				}
			} else if badComp[id] == "" {
				badComp[id] = m[2]
			}
		}
	}
	drvScen := filepath.Join(*work, "drv.ndjson")
	w, err := hx.NewNDWriter(drvScen)
	hx.Must(err)
	for i, s := range scens {
		calls := []any{}
		if ok[i] && badComp[i] == "" {
			var bv any = stv(lit(7))
			switch s.Bk {
			case "ptr":
				bv = ptrv(stv(lit(7)))
			case "slice":
				bv = map[string]any{"k": "s", "a": "i", "es": []any{stv(lit(7))}}
			}
			calls = append(calls, map[string]any{"args": []any{stv(lit(5), bv)}, "dump": []int{}})
		}
		w.Write(map[string]any{"ins": []any{}, "lit": true, "calls": calls})
	}
	w.Close()
	b := hx.NewBatch(*work)
	recs, _, err := b.RunDriver(drvScen, "seq")
	hx.Must(err)
	got := map[int][]string{}
	for _, r := range recs {
		id := int(r["id"].(float64))
		res := []string{"?", "?"}
		if outs, okk := r["outs"].([]any); okk && len(outs) > 0 {
			if st, okk := outs[0].(map[string]any); okk && st["k"] == "st" {
				fsv := st["fs"].([]any)
				tokOf := func(v any) string {
					t, _ := v.(map[string]any)["tok"].(string)
					return strings.TrimPrefix(t, "#")
				}
				res[0] = tokOf(fsv[0])
				inner := fsv[1].(map[string]any)
				switch inner["k"] {
				case "p":
					inner = inner["e"].(map[string]any)
				case "s":
					if es := inner["es"].([]any); len(es) == 1 {
						inner = es[0].(map[string]any)
					}
				}
				if inner["k"] == "st" {
					res[1] = tokOf(inner["fs"].([]any)[0])
				}
			}
		}
		got[id] = res
	}
	obs, err := hx.NewNDWriter(*obsFile)
	hx.Must(err)
	defer obs.Close()
	nOK := 0
	for i, s := range scens {
		o := byProg[i]
		r := map[string]any{"id": i, "fmt": s.Fmt, "bk": s.Bk, "sibling": s.Sibling, "ext": s.Ext, "rootErr": s.RootErr, "how": s.How, "why": "", "ran": false, "res": []string{"?", "?"},
			"decls": map[string]int{"struct": 0, "method": 0, "func": 0, "init": 0, "other": 0}}
		if o == nil {
			r["gen"], r["compiles"], r["apiOK"] = "missing", false, false
			obs.Write(r)
			continue
		}
		if o.Gen == "panic" {
			r["why"] = hx.PanicClass(o.Why)
		}
		if o.Gen == "ok" {
			nOK++
			r["decls"] = desc[i]
		}
		r["gen"], r["compiles"], r["apiOK"], r["comperr"], r["diag"] = o.Gen, badComp[i] == "", badAPI[i] == "", badComp[i]+badAPI[i], firstLine(o.Why)
		if g, okk := got[i]; okk {
			r["ran"], r["res"] = true, g
		}
		obs.Write(r)
	}
	js, _ := json.Marshal(map[string]any{"scenarios": len(scens), "generated": nOK, "uncompilable": len(badComp), "api_mismatch": len(badAPI), "executions": len(recs),
		"gen_s": tGen.Seconds(), "build_s": tBuild.Seconds()})
	fmt.Println("HARNESS-SUMMARY " + string(js))
}
