// vh is the conformance harness: it replays TLC-exported scenarios into the real goverter (built from
// /repo with -tags verif) and the real generated code, and records observations for TLC to validate.
package main

import (
	"fmt"
	"os"
)

func main() {
	if len(os.Args) < 2 {
		fmt.Fprintln(os.Stderr, "usage: vh <family> args...")
		os.Exit(2)
	}
	defer func() {
		if r := recover(); r != nil {
			fmt.Fprintln(os.Stderr, "HARNESS-ERROR:", r)
			os.Exit(2)
		}
	}()
	switch os.Args[1] {
	case "text":
		cmdText(os.Args[2:])
	case "run":
		cmdRun(os.Args[2:])
	case "comments":
		cmdComments(os.Args[2:])
	case "enum":
		cmdEnum(os.Args[2:])
	case "struct":
		cmdStruct(os.Args[2:])
	case "calls":
		cmdCalls(os.Args[2:])
	case "sig":
		cmdSig(os.Args[2:])
	case "repotrace":
		cmdRepoTrace(os.Args[2:])
	case "witness":
		cmdWitness(os.Args[2:])
	case "formats":
		cmdFormats(os.Args[2:])
	case "namer":
		cmdNamer(os.Args[2:])
	case "pkgwide":
		cmdPkgWide(os.Args[2:])
	case "rules":
		cmdRules(os.Args[2:])
	default:
		fmt.Fprintln(os.Stderr, "unknown family", os.Args[1])
		os.Exit(2)
	}
}
