package main

import (
	"encoding/json"
	"flag"
	"fmt"

	"github.com/jmattheis/goverter/namer"
	"verifharness/hx"
)

// Namer family: call sequences produced by TLC are replayed on the real namer.Namer.

type namerOp struct {
	Op  string `json:"op"`
	Arg string `json:"arg"`
}

type namerScen struct {
	Ops []namerOp `json:"ops"`
}

func cmdNamer(args []string) {
	fs := flag.NewFlagSet("namer", flag.ExitOnError)
	scenFile := fs.String("scen", "", "")
	obsFile := fs.String("obs", "", "")
	fs.Parse(args)
	obs, err := hx.NewNDWriter(*obsFile)
	hx.Must(err)
	defer obs.Close()
	n, calls := 0, 0
	hx.Must(hx.ReadNDJSON(*scenFile, func(i int, b []byte) error {
		var s namerScen
		if err := json.Unmarshal(b, &s); err != nil {
			return err
		}
		outs := [][]string{}
		panicked := false
		func() {
			defer func() {
				if r := recover(); r != nil {
					panicked = true
				}
			}()
			nm := namer.New()
			for _, o := range s.Ops {
				switch o.Op {
				case "name":
					outs = append(outs, []string{nm.Name(o.Arg)})
				case "index":
					outs = append(outs, []string{nm.Index()})
				case "index18":
					for k := 0; k < 18; k++ {
						outs = append(outs, []string{nm.Index()})
						calls++
					}
				case "map":
					k, v := nm.Map()
					outs = append(outs, []string{k, v})
				case "register":
					outs = append(outs, []string{fmt.Sprint(nm.Register(o.Arg))})
				}
				calls++
			}
		}()
		obs.Write(map[string]any{"id": i, "ops": s.Ops, "outs": outs, "panic": panicked})
		n++
		return nil
	}))
	js, _ := json.Marshal(map[string]any{"scenarios": n, "executions": calls})
	fmt.Println("HARNESS-SUMMARY " + string(js))
}
