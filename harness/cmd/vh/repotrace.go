package main

import (
	"flag"
	"fmt"
	"os"
	"path/filepath"
	"sort"
	"strings"

	"github.com/jmattheis/goverter"
	"github.com/jmattheis/goverter/config"
	"github.com/jmattheis/goverter/enum"
	"gopkg.in/yaml.v3"
	"verifharness/hx"
)

type repoScenario struct {
	Input           map[string]string `yaml:"input"`
	Global          []string          `yaml:"global,omitempty"`
	BuildConstraint string            `yaml:"build_constraint,omitempty"`
	Patterns        []string          `yaml:"patterns,omitempty"`
	Error           string            `yaml:"error,omitempty"`
}

// cmdRepoTrace runs every scenario file of the repository (its own test inputs) through the normal pipeline with the
// trace sink installed and writes the concatenated event trace (one trace.reset per scenario).
func cmdRepoTrace(args []string) {
	fs := flag.NewFlagSet("repotrace", flag.ExitOnError)
	dir := fs.String("scenarios", "/repo/scenario", "")
	traceFile := fs.String("trace", "", "")
	work := fs.String("work", "", "")
	fs.Parse(args)
	files, err := filepath.Glob(filepath.Join(*dir, "*.yml"))
	hx.Must(err)
	sort.Strings(files)
	tw, err := hx.NewNDWriter(*traceFile)
	hx.Must(err)
	nOK, nFail, nEv := 0, 0, 0
	for k, f := range files {
		b, err := os.ReadFile(f)
		hx.Must(err)
		var sc repoScenario
		hx.Must(yaml.Unmarshal(b, &sc))
		w := filepath.Join(*work, fmt.Sprintf("r%d", k))
		tree := map[string]string{"go.mod": "module github.com/jmattheis/goverter/execution\ngo 1.18"}
		for name, content := range sc.Input {
			tree[name] = content
		}
		hx.WriteTree(w, tree)
		patterns := sc.Patterns
		if len(patterns) == 0 {
			patterns = []string{"github.com/jmattheis/goverter/execution"}
		}
		var gerr error
		events := hx.Trace(func() {
			defer func() {
				if r := recover(); r != nil {
					gerr = fmt.Errorf("panic: %v", r)
				}
			}()
			_, gerr = goverter.GenerateRawVerif(&goverter.GenerateConfig{WorkingDir: w, PackagePatterns: patterns, OutputBuildConstraint: sc.BuildConstraint, BuildTags: "goverter",
				EnumTransformers: map[string]enum.Transformer{}, Global: config.RawLines{Lines: sc.Global, Location: "scenario global"}})
		})
		if gerr != nil {
			nFail++
		} else {
			nOK++
		}
		tw.Write(map[string]any{"ev": "trace.reset", "seq": 0, "scenario": strings.TrimSuffix(filepath.Base(f), ".yml")})
		for _, ev := range events {
			tw.Write(ev)
		}
		nEv += len(events) + 1
		os.RemoveAll(w)
	}
	tw.Close()
	fmt.Printf("HARNESS-SUMMARY {\"scenarios\": %d, \"succeeded\": %d, \"failed\": %d, \"events\": %d}\n", len(files), nOK, nFail, nEv)
}
