package main

import (
	"encoding/json"
	"flag"
	"fmt"
	"os"
	"path/filepath"
	"strings"
	"time"

	"verifharness/hx"
)

type ruleScen struct {
	S    json.RawMessage   `json:"s"`
	T    json.RawMessage   `json:"t"`
	Cfg  map[string]bool   `json:"cfg"`
	Conv bool              `json:"conv"`
	Plan bool              `json:"plan"`
	Ins  []json.RawMessage `json:"ins"`
}

// cmdRules: F-Rules family. One declared method Conv(S) T per scenario under the scenario's settings.
func cmdRules(args []string) {
	fs := flag.NewFlagSet("rules", flag.ExitOnError)
	scenFile := fs.String("scen", "", "scenario NDJSON (TLC export)")
	obsFile := fs.String("obs", "", "observation NDJSON (output)")
	traceFile := fs.String("trace", "", "trace NDJSON (output, optional)")
	work := fs.String("work", "", "scratch directory")
	race := fs.Bool("race", false, "also run the race pass")
	raceEvery := fs.Int("race-every", 1, "race pass over every n-th executable scenario")
	fs.Parse(args)

	var scens []ruleScen
	hx.Must(hx.ReadNDJSON(*scenFile, func(i int, line []byte) error {
		var s ruleScen
		if err := json.Unmarshal(line, &s); err != nil {
			return err
		}
		scens = append(scens, s)
		return nil
	}))
	b := hx.NewBatch(*work)
	b.WriteGoMod()
	decls := hx.NewDecls()
	var src strings.Builder
	for i, s := range scens {
		var st, tt hx.Term
		hx.Must(json.Unmarshal(s.S, &st))
		hx.Must(json.Unmarshal(s.T, &tt))
		src.WriteString("\n// goverter:converter\n")
		if s.Cfg["skip"] {
			src.WriteString("// goverter:skipCopySameType\n")
		}
		if s.Cfg["zero"] {
			src.WriteString("// goverter:useZeroValueOnPointerInconsistency\n")
		}
		fmt.Fprintf(&src, "// goverter:output:file ../gen/c%d.go\n// goverter:output:package %s/gen\ntype C%d interface {\n\tConv(%s) %s\n}\n", i, b.Mod, i, decls.GoType(&st), decls.GoType(&tt))
	}
	head := "package p\n\n"
	if decls.Unsafe {
		head += "import \"unsafe\"\n\nvar _ unsafe.Pointer\n\n"
	}
	hx.WriteTree(*work, map[string]string{"p/in.go": head + decls.Source() + src.String()})

	t0 := time.Now()
	var outs []hx.Outcome
	var err error
	var events []map[string]any
	if *traceFile != "" {
		events = hx.Trace(func() { outs, err = hx.GenerateEach(hx.GenConfig(*work, []string{"./p"}, nil)) })
	} else {
		outs, err = hx.GenerateEach(hx.GenConfig(*work, []string{"./p"}, nil))
	}
	hx.Must(err)
	if len(outs) != len(scens) {
		panic(fmt.Sprint("result count ", len(outs), " != ", len(scens)))
	}
	b.Timing["gen"] = time.Since(t0)

	for i, o := range outs {
		if o.Name != fmt.Sprintf("C%d", i) {
			panic("order mismatch " + o.Name)
		}
		if o.Gen == "ok" {
			b.WriteOutputs(i, o.Files)
			if len(scens[i].Ins) > 0 {
				b.Reg[i] = fmt.Sprintf("reflect.ValueOf((&gen.C%dImpl{}).Conv)", i)
			}
			b.API[i] = fmt.Sprintf("import (\n\tp \"%s/p\"\n\tgen \"%s/gen\"\n)\n\nvar _ p.C%d = &gen.C%dImpl{}\n", b.Mod, b.Mod, i, i)
		}
	}
	hx.Must(b.BuildDriver(nil, false))
	obs, err := hx.NewNDWriter(*obsFile)
	hx.Must(err)
	defer obs.Close()
	nOK := 0
	for i, o := range outs {
		why := ""
		if o.Gen == "panic" {
			why = hx.PanicClass(o.Why)
		}
		_, badc := b.BadComp[i]
		if o.Gen == "ok" {
			nOK++
		}
		imps, decls := hx.DescribeFiles(o.Files, map[string]string{b.Mod + "/p": "user"})
		obs.Write(map[string]any{"id": i, "exec": false, "imports": imps, "decls": decls, "s": scens[i].S, "t": scens[i].T, "cfg": scens[i].Cfg,
			"gen": o.Gen, "why": why, "apiOK": b.BadAPI[i] == "", "namesDecl": strings.Contains(o.Why, "in.go:") || strings.Contains(o.Why, fmt.Sprintf("C%d", i)), "compiles": !badc, "comperr": b.BadComp[i], "diag": o.Gen == "fail" && o.Why != "", "nfiles": len(o.Files)})
	}
	recs, _, err := b.RunDriver(*scenFile, "seq")
	hx.Must(err)
	nExec := 0
	for _, r := range recs {
		id := int(r["id"].(float64))
		r["s"], r["t"], r["cfg"] = scens[id].S, scens[id].T, scens[id].Cfg
		if r["codec"] != nil {
			panic(fmt.Sprint("codec round-trip failed for scenario ", id))
		}
		obs.Write(r)
		nExec++
	}
	nRace := 0
	if *race {
		// race pass: a reduced scenario file (every n-th executable scenario keeps its inputs)
		raceScen := filepath.Join(*work, "race.ndjson")
		w, err := hx.NewNDWriter(raceScen)
		hx.Must(err)
		k := 0
		for i, s := range scens {
			keep := false
			if b.OK[i] && len(s.Ins) > 0 {
				keep = k%*raceEvery == 0
				k++
			}
			if keep {
				w.Write(map[string]any{"ins": s.Ins})
			} else {
				w.Write(map[string]any{"ins": []any{}})
			}
		}
		w.Close()
		hx.Must(b.BuildDriver(nil, true))
		rrecs, stderr, err := b.RunDriver(raceScen, "race")
		hx.Must(err)
		racy := hx.RaceScenarios(stderr)
		for _, r := range rrecs {
			id := int(r["id"].(float64))
			j := int(r["j"].(float64))
			obs.Write(map[string]any{"id": id, "j": j, "exec": true, "racepass": true, "s": scens[id].S, "t": scens[id].T, "cfg": scens[id].Cfg,
				"race": racy[[2]int{id, j}], "unchanged": r["after"]})
			nRace++
		}
	}
	if *traceFile != "" {
		tw, err := hx.NewNDWriter(*traceFile)
		hx.Must(err)
		for _, ev := range events {
			tw.Write(ev)
		}
		tw.Close()
	}
	sum := map[string]any{"scenarios": len(scens), "generated": nOK, "uncompilable": len(b.BadComp), "executions": nExec, "race_runs": nRace,
		"gen_s": b.Timing["gen"].Seconds(), "build_s": b.Timing["build"].Seconds(), "exec_s": b.Timing["exec"].Seconds(), "events": len(events)}
	js, _ := json.Marshal(sum)
	fmt.Println("HARNESS-SUMMARY " + string(js))
	_ = os.Stdout.Sync()
}
