package main

import (
	"encoding/json"
	"flag"
	"fmt"
	"path/filepath"
	"strings"
	"time"

	"verifharness/hx"
)

type sigScen struct {
	Params  []string `json:"params"`
	Results []string `json:"results"`
	Use     string   `json:"use"`
	Valid   bool     `json:"valid"`
	Layout  string   `json:"layout"`
	Place   string   `json:"place"`
}

// cmdSig: C14. One converter method per scenario with the parameter / result list of the scenario.
func cmdSig(args []string) {
	fs := flag.NewFlagSet("sig", flag.ExitOnError)
	scenFile := fs.String("scen", "", "")
	obsFile := fs.String("obs", "", "")
	work := fs.String("work", "", "")
	fs.Parse(args)
	var scens []sigScen
	hx.Must(hx.ReadNDJSON(*scenFile, func(i int, b []byte) error {
		var s sigScen
		if err := json.Unmarshal(b, &s); err != nil {
			return err
		}
		scens = append(scens, s)
		return nil
	}))
	b := hx.NewBatch(*work)
	b.WriteGoMod()
	var srcP, srcE strings.Builder
	// custom functions of two *different* packages that share the package name `ext` (their doc comments are looked up per package)
	var srcX [2]strings.Builder
	usedX := [2]bool{}
	types := "type S struct{ A int }\ntype S2 struct{ A int }\ntype T struct{ A int }\ntype X struct{ V int }\ntype Y struct{ V int }\n"
	srcP.WriteString("package p\n\n" + types)
	// package pe declares its own type named error: there `error` is not the built-in error
	srcE.WriteString("package pe\n\n" + types + "type error struct{ Code int }\n")
	pkgOf := make([]string, len(scens))
	type call struct {
		Args []any `json:"args"`
		Dump []int `json:"dump"`
	}
	lines := make([]map[string]any, len(scens))
	wants := make([][]int, len(scens))
	for i, s := range scens {
		src := &srcP
		pkgOf[i] = "p"
		for _, r := range s.Results {
			if r == "localerror" {
				src, pkgOf[i] = &srcE, "pe"
			}
		}
		// the custom function lives next to the converter or in x1/ext / x2/ext
		q, xi := "", -1
		if s.Use == "extend" && pkgOf[i] == "p" && s.Place != "local" && s.Place != "regex" && s.Place != "typename" && s.Place != "methoddoc" && s.Place != "unexported" && s.Place != "" {
			q, xi = "p.", int(s.Place[1]-'1')
		}
		var ps []string
		var av []any
		dump := []int{}
		want := []int{}
		doc := ""
		for k, p := range s.Params {
			switch p {
			case "src":
				ps = append(ps, "source "+q+"S")
				av = append(av, stv(lit(5)))
				want = append(want, 5)
			case "src2":
				ps = append(ps, "other "+q+"S2")
				av = append(av, stv(lit(6)))
				want = append(want, 6)
			case "ctxdecl":
				ps = append(ps, "ctx "+q+"X")
				av = append(av, stv(lit(1)))
				want = append(want, -1)
				doc += "\t// goverter:context ctx\n"
			case "ctxregex":
				ps = append(ps, "rxA "+q+"Y")
				av = append(av, stv(lit(2)))
				want = append(want, -1)
			case "conv":
				ps = append(ps, fmt.Sprintf("conv %sC%d", q, i))
				av = append(av, nilv())
				want = append(want, -1)
			case "upd":
				ps = append(ps, "target *"+q+"T")
				av = append(av, ptrv(stv(lit(9))))
				want = append(want, -1)
				dump = append(dump, k)
				doc += "\t// goverter:update target\n"
			}
		}
		wants[i] = want
		rs := make([]string, len(s.Results))
		for k, r := range s.Results {
			rs[k] = r
			if r == "localerror" {
				rs[k] = "error"
			}
			if r == "T" {
				rs[k] = q + "T"
			}
		}
		res := ""
		switch len(rs) {
		case 0:
		case 1:
			res = " " + rs[0]
		default:
			res = " (" + strings.Join(rs, ", ") + ")"
		}
		if s.Use == "extend" {
			// the custom function F<i> under test, a sibling in the same file declaring other context names, and a converter using F<i>
			fdoc := strings.ReplaceAll(doc, "\t", "")
			body := "panic(0)"
			trail := ""
			// layouts of the context line in the custom function's doc comment
			const cl = "// goverter:context ctx\n"
			switch s.Layout {
			case "directive":
				fdoc = strings.Replace(fdoc, cl, "//goverter:context ctx\n", 1)
			case "block":
				fdoc = strings.Replace(fdoc, cl, "/* goverter:context ctx */\n", 1)
			case "tab":
				fdoc = strings.Replace(fdoc, cl, "//\tgoverter:context ctx  \n", 1)
			case "prose":
				fdoc = strings.Replace(fdoc, cl, "// see goverter:context ctx\n", 1)
			case "longline":
				fdoc = strings.Replace(fdoc, cl, "// "+strings.Repeat("x", 70000)+"\n"+cl, 1)
			case "tabsep":
				fdoc = strings.Replace(fdoc, cl, "// goverter:context\tctx\n", 1)
			case "detached":
				fdoc = strings.Replace(fdoc, cl, cl+"\n", 1)
			case "trailing":
				fdoc = strings.Replace(fdoc, cl, "", 1)
				trail = " // goverter:context ctx"
			}
			fsrc, ext := src, fmt.Sprintf("F%d", i)
			if s.Place == "regex" {
				ext = fmt.Sprintf("F%dx?", i)
			}
			if xi >= 0 {
				fsrc, ext = &srcX[xi], fmt.Sprintf("%s/x%d/ext:F%d", b.Mod, xi+1, i)
				usedX[xi] = true
			}
			if s.Place == "unexported" {
				ext = fmt.Sprintf("f%d", i)
			}
			if s.Place == "methoddoc" {
				fmt.Fprintf(fsrc, "\ntype Tm%d struct{}\n\n// goverter:context source\n// goverter:context other\nfunc (Tm%d) F%d() {}\n", i, i, i)
			}
			if s.Place == "typename" {
				// a declared func type of this name instead of a function
				fmt.Fprintf(fsrc, "\n%stype F%d func(%s)%s\n\n// goverter:context source\n// goverter:context other\nfunc G%d(v int, source %sX, other %sY) string { return \"\" }\n", fdoc, i, strings.Join(ps, ", "), res, i, q, q)
			} else if s.Place == "unexported" {
				fmt.Fprintf(fsrc, "\n%sfunc f%d(%s)%s { %s }"+trail+"\n\n// goverter:context source\n// goverter:context other\nfunc G%d(v int, source %sX, other %sY) string { return \"\" }\n\nvar _ = f%d\n", fdoc, i, strings.Join(ps, ", "), res, body, i, q, q, i)
			} else {
				fmt.Fprintf(fsrc, "\n%sfunc F%d(%s)%s { %s }"+trail+"\n\n// goverter:context source\n// goverter:context other\nfunc G%d(v int, source %sX, other %sY) string { return \"\" }\n", fdoc, i, strings.Join(ps, ", "), res, body, i, q, q)
			}
			fmt.Fprintf(src, "\n// goverter:converter\n// goverter:extend %s\n// goverter:output:file ../gen/c%d.go\n// goverter:output:package %s/gen\ntype C%d interface {\n\t// goverter:context ctx\n\tConv(source S, ctx X) (T, error)\n}\n", ext, i, b.Mod, i)
			lines[i] = map[string]any{"ins": []any{}, "lit": true, "calls": []call{}}
			wants[i] = []int{}
			continue
		}
		fmt.Fprintf(src, "\n// goverter:converter\n// goverter:arg:context:regex ^rx\n// goverter:output:file ../gen/c%d.go\n// goverter:output:package %s/gen\ntype C%d interface {\n%s\tConv(%s)%s\n}\n", i, b.Mod, i, doc, strings.Join(ps, ", "), res)
		lines[i] = map[string]any{"ins": []any{}, "lit": true, "calls": []call{{Args: av, Dump: dump}}}
		b.API[i] = fmt.Sprintf("import (\n\tp \"%s/%s\"\n\tgen \"%s/gen\"\n)\n\nvar _ p.C%d = &gen.C%dImpl{}\n", b.Mod, pkgOf[i], b.Mod, i, i)
	}
	tree := map[string]string{"p/in.go": srcP.String(), "pe/in.go": srcE.String()}
	for k := range srcX {
		if usedX[k] {
			tree[fmt.Sprintf("x%d/ext/ext.go", k+1)] = fmt.Sprintf("package ext\n\nimport p \"%s/p\"\n", b.Mod) + srcX[k].String()
		}
	}
	hx.WriteTree(*work, tree)
	t0 := time.Now()
	all, err := hx.GenerateEach(hx.GenConfig(*work, []string{"./p", "./pe"}, nil))
	hx.Must(err)
	b.Timing["gen"] = time.Since(t0)
	if len(all) != len(scens) {
		panic("result count mismatch")
	}
	outs := make([]hx.Outcome, len(scens))
	for _, o := range all {
		var i int
		fmt.Sscanf(o.Name, "C%d", &i)
		outs[i] = o
	}
	for i, o := range outs {
		if o.Gen == "ok" {
			b.WriteOutputs(i, o.Files)
			b.Reg[i] = fmt.Sprintf("reflect.ValueOf((&gen.C%dImpl{}).Conv)", i)
		}
	}
	hx.Must(b.BuildDriver(nil, false))
	// the calls are written after the build: a method that does not implement the declared signature (API assertion failed)
	// is not called with arguments shaped after the declaration
	drvScen := filepath.Join(*work, "drv.ndjson")
	w, err := hx.NewNDWriter(drvScen)
	hx.Must(err)
	for i, o := range outs {
		if o.Gen == "ok" && b.BadAPI[i] == "" {
			w.Write(lines[i])
		} else {
			w.Write(map[string]any{"ins": []any{}})
		}
	}
	w.Close()
	recs, _, err := b.RunDriver(drvScen, "seq")
	hx.Must(err)
	byID := map[int]map[string]any{}
	for _, r := range recs {
		byID[int(r["id"].(float64))] = r
	}
	obs, err := hx.NewNDWriter(*obsFile)
	hx.Must(err)
	defer obs.Close()
	nOK, nExec := 0, 0
	for i, o := range outs {
		s := scens[i]
		_, badc := b.BadComp[i]
		why := ""
		if o.Gen == "panic" {
			why = hx.PanicClass(o.Why)
		}
		if o.Gen == "ok" {
			nOK++
		}
		rec := map[string]any{"id": i, "params": nz(s.Params), "results": nz(s.Results), "use": s.Use, "layout": s.Layout, "place": s.Place, "gen": o.Gen, "why": why, "compiles": !badc, "apiOK": b.BadAPI[i] == "",
			"ran": false, "got": -1, "want": wants[i], "diag": firstLine(o.Why), "comperr": b.BadComp[i] + b.BadAPI[i]}
		if r, ok := byID[i]; ok && r["panic"] != true {
			nExec++
			rec["ran"] = true
			if outs, ok := r["outs"].([]any); ok && len(outs) > 0 {
				if st, ok := outs[0].(map[string]any); ok && st["k"] == "st" {
					rec["got"] = litOf(st["fs"].([]any)[0])
				}
			} else if after, ok := r["after"].([]any); ok && len(after) > 0 {
				rec["got"] = litOf(after[0].(map[string]any)["e"].(map[string]any)["fs"].([]any)[0])
			}
		}
		obs.Write(rec)
	}
	js, _ := json.Marshal(map[string]any{"scenarios": len(scens), "generated": nOK, "uncompilable": len(b.BadComp), "api_mismatch": len(b.BadAPI), "executions": nExec,
		"gen_s": b.Timing["gen"].Seconds(), "build_s": b.Timing["build"].Seconds(), "exec_s": b.Timing["exec"].Seconds()})
	fmt.Println("HARNESS-SUMMARY " + string(js))
}
