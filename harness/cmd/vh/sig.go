package main

import (
	"encoding/json"
	"flag"
	"fmt"
	"path/filepath"
	"strings"
	"time"

	"verifharness/hx"
)

type sigScen struct {
	Params  []string `json:"params"`
	Results []string `json:"results"`
	Use     string   `json:"use"`
	Valid   bool     `json:"valid"`
}

// cmdSig: C14. One converter method per scenario with the parameter / result list of the scenario.
func cmdSig(args []string) {
	fs := flag.NewFlagSet("sig", flag.ExitOnError)
	scenFile := fs.String("scen", "", "")
	obsFile := fs.String("obs", "", "")
	work := fs.String("work", "", "")
	fs.Parse(args)
	var scens []sigScen
	hx.Must(hx.ReadNDJSON(*scenFile, func(i int, b []byte) error {
		var s sigScen
		if err := json.Unmarshal(b, &s); err != nil {
			return err
		}
		scens = append(scens, s)
		return nil
	}))
	b := hx.NewBatch(*work)
	b.WriteGoMod()
	var src strings.Builder
	src.WriteString("package p\n\ntype S struct{ A int }\ntype S2 struct{ A int }\ntype T struct{ A int }\ntype X struct{ V int }\ntype Y struct{ V int }\n")
	type call struct {
		Args []any `json:"args"`
		Dump []int `json:"dump"`
	}
	lines := make([]map[string]any, len(scens))
	wants := make([][]int, len(scens))
	for i, s := range scens {
		var ps []string
		var av []any
		dump := []int{}
		want := []int{}
		doc := ""
		for k, p := range s.Params {
			switch p {
			case "src":
				ps = append(ps, "source S")
				av = append(av, stv(lit(5)))
				want = append(want, 5)
			case "src2":
				ps = append(ps, "other S2")
				av = append(av, stv(lit(6)))
				want = append(want, 6)
			case "ctxdecl":
				ps = append(ps, "ctx X")
				av = append(av, stv(lit(1)))
				want = append(want, -1)
				doc += "\t// goverter:context ctx\n"
			case "ctxregex":
				ps = append(ps, "rxA Y")
				av = append(av, stv(lit(2)))
				want = append(want, -1)
			case "conv":
				ps = append(ps, fmt.Sprintf("conv C%d", i))
				av = append(av, nilv())
				want = append(want, -1)
			case "upd":
				ps = append(ps, "target *T")
				av = append(av, ptrv(stv(lit(9))))
				want = append(want, -1)
				dump = append(dump, k)
				doc += "\t// goverter:update target\n"
			}
		}
		wants[i] = want
		res := ""
		switch len(s.Results) {
		case 0:
		case 1:
			res = " " + s.Results[0]
		default:
			res = " (" + strings.Join(s.Results, ", ") + ")"
		}
		fmt.Fprintf(&src, "\n// goverter:converter\n// goverter:arg:context:regex ^rx\n// goverter:output:file ../gen/c%d.go\n// goverter:output:package %s/gen\ntype C%d interface {\n%s\tConv(%s)%s\n}\n", i, b.Mod, i, doc, strings.Join(ps, ", "), res)
		lines[i] = map[string]any{"ins": []any{}, "lit": true, "calls": []call{{Args: av, Dump: dump}}}
		b.API[i] = fmt.Sprintf("import (\n\tp \"%s/p\"\n\tgen \"%s/gen\"\n)\n\nvar _ p.C%d = &gen.C%dImpl{}\n", b.Mod, b.Mod, i, i)
	}
	hx.WriteTree(*work, map[string]string{"p/in.go": src.String()})
	t0 := time.Now()
	outs, err := hx.GenerateEach(hx.GenConfig(*work, []string{"./p"}, nil))
	hx.Must(err)
	b.Timing["gen"] = time.Since(t0)
	if len(outs) != len(scens) {
		panic("result count mismatch")
	}
	drvScen := filepath.Join(*work, "drv.ndjson")
	w, err := hx.NewNDWriter(drvScen)
	hx.Must(err)
	for i, o := range outs {
		if o.Gen == "ok" {
			b.WriteOutputs(i, o.Files)
			b.Reg[i] = fmt.Sprintf("reflect.ValueOf((&gen.C%dImpl{}).Conv)", i)
			w.Write(lines[i])
		} else {
			w.Write(map[string]any{"ins": []any{}})
		}
	}
	w.Close()
	hx.Must(b.BuildDriver(nil, false))
	recs, _, err := b.RunDriver(drvScen, "seq")
	hx.Must(err)
	byID := map[int]map[string]any{}
	for _, r := range recs {
		byID[int(r["id"].(float64))] = r
	}
	obs, err := hx.NewNDWriter(*obsFile)
	hx.Must(err)
	defer obs.Close()
	nOK, nExec := 0, 0
	for i, o := range outs {
		s := scens[i]
		_, badc := b.BadComp[i]
		why := ""
		if o.Gen == "panic" {
			why = hx.PanicClass(o.Why)
		}
		if o.Gen == "ok" {
			nOK++
		}
		rec := map[string]any{"id": i, "params": nz(s.Params), "results": nz(s.Results), "use": s.Use, "gen": o.Gen, "why": why, "compiles": !badc, "apiOK": b.BadAPI[i] == "",
			"ran": false, "got": -1, "want": wants[i], "diag": firstLine(o.Why), "comperr": b.BadComp[i] + b.BadAPI[i]}
		if r, ok := byID[i]; ok && r["panic"] != true {
			nExec++
			rec["ran"] = true
			if outs, ok := r["outs"].([]any); ok && len(outs) > 0 {
				if st, ok := outs[0].(map[string]any); ok && st["k"] == "st" {
					rec["got"] = litOf(st["fs"].([]any)[0])
				}
			} else if after, ok := r["after"].([]any); ok && len(after) > 0 {
				rec["got"] = litOf(after[0].(map[string]any)["e"].(map[string]any)["fs"].([]any)[0])
			}
		}
		obs.Write(rec)
	}
	js, _ := json.Marshal(map[string]any{"scenarios": len(scens), "generated": nOK, "uncompilable": len(b.BadComp), "api_mismatch": len(b.BadAPI), "executions": nExec,
		"gen_s": b.Timing["gen"].Seconds(), "build_s": b.Timing["build"].Seconds(), "exec_s": b.Timing["exec"].Seconds()})
	fmt.Println("HARNESS-SUMMARY " + string(js))
}
