package main

import (
	"encoding/json"
	"flag"
	"fmt"
	"path/filepath"
	"strings"
	"time"

	"verifharness/hx"
)

// F-Struct family: field selection (C05), accessibility (C03), update methods (C10).

type fieldProg struct {
	H1     bool   `json:"h1"`
	H2     bool   `json:"h2"`
	Inner  string `json:"inner"`
	Tn     string `json:"tn"`
	Map    string `json:"map"`
	Ignore bool   `json:"ignore"`
	Mic    bool   `json:"mic"`
	Im     bool   `json:"im"`
	Am     bool   `json:"am"`
}

type updProg struct {
	Basic    bool `json:"basic"`
	Struct   bool `json:"struct"`
	Nillable bool `json:"nillable"`
	Skip     bool `json:"skip"`
	SrcPtr   bool `json:"srcPtr"`
	IgnoreA  bool `json:"ignoreA"`
	RetErr   bool `json:"retErr"`
	Comb     bool `json:"comb"`
}

type defProg struct {
	SrcPtr  bool `json:"srcPtr"`
	TgtPtr  bool `json:"tgtPtr"`
	FuncPtr bool `json:"funcPtr"`
	FuncSrc bool `json:"funcSrc"`
	Upd     bool `json:"upd"`
	IgnoreB bool `json:"ignoreB"`
	ZSkip   bool `json:"zskip"`
	NoFlag  bool `json:"noflag"`
}

type structScen struct {
	Kind    string          `json:"kind"`
	Prog    json.RawMessage `json:"prog"`
	Side    string          `json:"side"`
	Setting string          `json:"setting"`
	Vals    [][]string      `json:"vals"`
}

func lit(n int) map[string]any { return map[string]any{"k": "b", "tok": fmt.Sprintf("#%d", n)} }
func stv(fs ...any) map[string]any {
	if fs == nil {
		fs = []any{}
	}
	return map[string]any{"k": "st", "fs": fs}
}
func ptrv(v any) map[string]any { return map[string]any{"k": "p", "a": "i", "e": v} }
func nilv() map[string]any      { return map[string]any{"k": "nil"} }

func has(l []string, x string) bool {
	for _, y := range l {
		if y == x {
			return true
		}
	}
	return false
}

func litOf(v any) int {
	m := v.(map[string]any)
	tok, _ := m["tok"].(string)
	if tok == "z" {
		return 0
	}
	var n int
	fmt.Sscanf(tok, "#%d", &n)
	return n
}

func cmdStruct(args []string) {
	fs := flag.NewFlagSet("struct", flag.ExitOnError)
	scenFile := fs.String("scen", "", "")
	obsFile := fs.String("obs", "", "")
	work := fs.String("work", "", "")
	fs.Parse(args)
	var scens []structScen
	hx.Must(hx.ReadNDJSON(*scenFile, func(i int, b []byte) error {
		var s structScen
		if err := json.Unmarshal(b, &s); err != nil {
			return err
		}
		scens = append(scens, s)
		return nil
	}))
	b := hx.NewBatch(*work)
	b.WriteGoMod()
	var src strings.Builder
	src.WriteString("package p\n\nimport \"" + b.Mod + "/q\"\n\nvar _ q.TQ\n\nfunc Fn(x int) int { return x }\n\ntype DS struct {\n\tA int\n\tB int\n}\ntype DT struct {\n\tA int\n\tB int\n}\ntype FPS struct{ V int }\ntype UN struct{ X int }\ntype UNI struct {\n\tX     int\n\tExtra interface{}\n}\ntype USI struct{ N UNI }\ntype UTI struct{ N UNI }\ntype UTags map[string]int\ntype UH struct{ X int }\ntype UHO struct{ X int }\ntype US struct {\n\tA  int\n\tN  UN\n\tP  *int\n\tL  []int\n\tM  map[string]int\n\tNM UTags\n\tPH *UH\n}\ntype UT struct {\n\tA  int\n\tN  UN\n\tP  *int\n\tL  []int\n\tLS []string\n\tM  map[string]int\n\tNM UTags\n\tPH *UHO\n}\n\nfunc ToS(v []int) []string {\n\tif v == nil {\n\t\treturn []string{\"nil\"}\n\t}\n\treturn []string{\"7\"}\n}\n\ntype Money struct{ V int }\ntype Price struct{ V int }\ntype Cost struct{ V int }\ntype DS2 struct {\n\tA int\n\tM Money\n\tN Money\n}\ntype DT2 struct {\n\tA int\n\tM Price\n\tN Cost\n}\n\nfunc NewT2() *DT2 { return &DT2{A: 100} }\n\nfunc NewDL() []*struct{ A int } { return nil }\n\ntype MN struct {\n\tV    int\n\tNext *MN\n}\ntype MNO struct {\n\tV     int\n\tNextV int\n\tSum   int\n\tSelf  *MN\n}\n\nfunc NextVal(n *MN) int {\n\tif n == nil {\n\t\treturn -1\n\t}\n\treturn n.V\n}\n\nfunc Summarize(n *MN) int {\n\tif n == nil || n.Next == nil {\n\t\treturn -1\n\t}\n\treturn n.V + n.Next.V\n}\n\ntype UNT struct {\n\tX       int\n\tHistory []int\n}\ntype UBS struct {\n\tF int\n\tG string\n\tH *int\n}\ntype UBT struct {\n\tF *int\n\tG *string\n\tH int\n}\ntype UCS struct{ N UN }\ntype UCT struct{ N UNT }\ntype UNS struct{ L []int }\ntype UOS struct {\n\tA int\n\tN UNS\n}\ntype UOT struct {\n\tA int\n\tN UNS\n}\ntype UDS struct{ A int }\ntype UDT struct {\n\tA   int\n\tAll UDS\n}\ntype UWS struct{ V string }\ntype UWT struct{ V int }\n\nfunc AtoiU(s string) (int, error) { return 0, errBoom{} }\n\ntype errBoom struct{}\n\nfunc (errBoom) Error() string { return \"boom\" }\n\nfunc Twice(v int) int { return 2 * v }\n\nfunc NewUWT() UWT { return UWT{V: 100} }\n\nfunc NewDM() map[string]int { return map[string]int{\"origin\": 1} }\n\ntype DR struct {\n\tV    int\n\tKids []DR\n}\ntype DRO struct {\n\tV    int\n\tKeep int\n\tKids []DRO\n}\n\nfunc NewDRO() *DRO { return &DRO{Keep: 100} }\n\ntype DV struct{ V int }\ntype DVO struct {\n\tV    int\n\tKeep int\n}\n\nfunc NewDVO() *DVO { return &DVO{Keep: 100} }\n")
	type drvCall struct {
		Args []any `json:"args"`
		Dump []int `json:"dump"`
	}
	drvLines := make([]map[string]any, len(scens))
	fprogs := make([]fieldProg, len(scens))
	uprogs := make([]updProg, len(scens))
	dprogs := make([]defProg, len(scens))
	var srcSP strings.Builder
	srcSP.WriteString("package sp\n\ntype SS struct {\n\tOpen   int\n\tsecret int\n}\ntype TS struct {\n\tOpen   int\n\tsecret int\n}\n")
	samePkg := map[int]bool{}
	head := func(i int) string {
		return fmt.Sprintf("// goverter:output:file ../gen/c%d.go\n// goverter:output:package %s/gen\n", i, b.Mod)
	}
	for i, s := range scens {
		drvLines[i] = map[string]any{"ins": []any{}, "lit": true}
		switch s.Kind {
		case "field":
			var p fieldProg
			hx.Must(json.Unmarshal(s.Prog, &p))
			fprogs[i] = p
			var inFields []string
			full, pnil := []any{}, []any{}
			add := func(decl string, v any) {
				inFields = append(inFields, decl)
				full = append(full, v)
				pnil = append(pnil, v)
			}
			if p.H1 {
				add("Ab int", lit(1))
			}
			if p.H2 {
				add("AB int", lit(2))
			}
			add("B int", lit(3))
			if p.Inner != "none" {
				var ifs []string
				iv := []any{}
				if strings.Contains(p.Inner, "Q") {
					ifs = append(ifs, "Q int")
					iv = append(iv, lit(4))
				}
				if strings.Contains(p.Inner, "Ab") {
					ifs = append(ifs, "Ab int")
					iv = append(iv, lit(6))
				}
				fmt.Fprintf(&src, "\ntype FI%d struct{ %s }\n", i, strings.Join(ifs, "; "))
				add(fmt.Sprintf("Inner FI%d", i), stv(iv...))
			}
			inFields = append(inFields, "P *FPS")
			full = append(full, ptrv(stv(lit(5))))
			pnil = append(pnil, nilv())
			fmt.Fprintf(&src, "\ntype FS%d struct{ %s }\ntype FT%d struct{ %s int }\n\n// goverter:converter\n// goverter:useZeroValueOnPointerInconsistency\n%stype C%d interface {\n", i, strings.Join(inFields, "; "), i, p.Tn, head(i), i)
			if p.Map != "none" {
				fmt.Fprintf(&src, "\t// goverter:map %s %s\n", p.Map, p.Tn)
			}
			if p.Ignore {
				fmt.Fprintf(&src, "\t// goverter:ignore %s\n", p.Tn)
			}
			if p.Mic {
				src.WriteString("\t// goverter:matchIgnoreCase\n")
			}
			if p.Im {
				src.WriteString("\t// goverter:ignoreMissing\n")
			}
			if p.Am {
				src.WriteString("\t// goverter:autoMap Inner\n")
			}
			fmt.Fprintf(&src, "\tConv(source FS%d) FT%d\n}\n", i, i)
			drvLines[i]["ins"] = []any{stv(full...), stv(pnil...)}
		case "fieldx":
			var q map[string]any
			hx.Must(json.Unmarshal(s.Prog, &q))
			switch q["x"] {
			case "unknown-target":
				fmt.Fprintf(&src, "\ntype XS%d struct{ A, B int }\ntype XT%d struct{ A int }\n\n// goverter:converter\n%stype C%d interface {\n\t// goverter:%s\n", i, i, head(i), i, q["line"])
				if q["im"] == true {
					src.WriteString("\t// goverter:ignoreMissing\n")
				}
				fmt.Fprintf(&src, "\tConv(source XS%d) XT%d\n}\n", i, i)
			case "nonstruct":
				st, tt := "[]XS%d", "[]XT%d"
				switch q["tgt"] {
				case "ptrptr":
					st, tt = "XS%d", "**XT%d"
				case "map":
					st, tt = "map[string]XS%d", "map[string]XT%d"
				}
				fmt.Fprintf(&src, "\ntype XS%d struct {\n\tA     int\n\tInner struct{ B int }\n}\ntype XT%d struct{ A int }\n\n// goverter:converter\n%stype C%d interface {\n\t// goverter:%s\n\tConv(source "+st+") "+tt+"\n}\n", i, i, head(i), i, q["line"], i, i)
			case "method":
				fields := "Other int"
				if q["field"] != "none" {
					fields += "; " + q["field"].(string) + " int"
				}
				fmt.Fprintf(&src, "\ntype XS%d struct{ %s }\n", i, fields)
				if q["meth"] != "none" {
					fmt.Fprintf(&src, "func (XS%d) %s() int { return 2 }\n", i, q["meth"])
				}
				fmt.Fprintf(&src, "type XT%d struct{ Name int }\n\n// goverter:converter\n%stype C%d interface {\n", i, head(i), i)
				if q["mic"] == true {
					src.WriteString("\t// goverter:matchIgnoreCase\n")
				}
				fmt.Fprintf(&src, "\tConv(source XS%d) XT%d\n}\n", i, i)
				vals := []any{lit(0)}
				if q["field"] != "none" {
					vals = append(vals, lit(1))
				}
				drvLines[i]["ins"] = []any{stv(vals...)}
			case "method-ctx":
				par, ret := fmt.Sprintf("XL%d", i), "2"
				if q["named"] == true {
					par, ret = fmt.Sprintf("l XL%d", i), "l.K"
				}
				fmt.Fprintf(&src, "\ntype XL%d struct{ K int }\ntype XS%d struct{ Other int }\n\nfunc (XS%d) Name(%s) int { return %s }\n\ntype XT%d struct{ Name int }\n\n// goverter:converter\n%stype C%d interface {\n", i, i, i, par, ret, i, head(i), i)
				if q["avail"] == true {
					fmt.Fprintf(&src, "\t// goverter:context loc\n\tConv(loc XL%d, source XS%d) XT%d\n}\n", i, i, i)
					drvLines[i]["calls"] = []drvCall{{Args: []any{stv(lit(4)), stv(lit(0))}, Dump: []int{}}}
				} else {
					fmt.Fprintf(&src, "\tConv(source XS%d) XT%d\n}\n", i, i)
					drvLines[i]["ins"] = []any{stv(lit(0))}
				}
			case "misc":
				switch q["sub"] {
				case "nested":
					fmt.Fprintf(&src, "\ntype XS%d struct {\n\tX       int\n\tName    int\n\tContact struct{ Name int }\n}\ntype XT%d struct {\n\tName    int\n\tContact struct{ Name int }\n}\n\n// goverter:converter\n%stype C%d interface {\n\t// goverter:map X Name\n\tConv(source XS%d) XT%d\n}\n", i, i, head(i), i, i, i)
					drvLines[i]["ins"] = []any{stv(lit(1), lit(2), stv(lit(3)))}
				case "two-automap":
					fmt.Fprintf(&src, "\ntype XH%d struct{ Street int }\ntype XJ%d struct{ Title int }\ntype XS%d struct {\n\tHome XH%d\n\tJob  XJ%d\n}\ntype XT%d struct {\n\tStreet int\n\tTitle  int\n}\n\n// goverter:converter\n%stype C%d interface {\n\t// goverter:autoMap Home\n\t// goverter:autoMap Job\n\tConv(source XS%d) XT%d\n}\n", i, i, i, i, i, i, head(i), i, i, i)
					drvLines[i]["ins"] = []any{stv(stv(lit(4)), stv(lit(5)))}
				default:
					fmt.Fprintf(&src, "\ntype XM%d struct{ Tags []int }\ntype XS%d struct{ Meta *XM%d }\ntype XT%d struct{ Tags []int }\n\n// goverter:converter\n// goverter:useZeroValueOnPointerInconsistency\n%stype C%d interface {\n\t// goverter:map Meta.Tags Tags\n\tConv(source XS%d) XT%d\n}\n", i, i, i, i, head(i), i, i, i)
					drvLines[i]["ins"] = []any{stv(ptrv(stv(map[string]any{"k": "s", "a": "i", "es": []any{lit(7)}}))), stv(nilv())}
				}
			case "reuse-ptrval":
				fmt.Fprintf(&src, "\ntype XS%d struct {\n\tA int\n\tB int\n}\ntype XT%d struct {\n\tA int\n\tC int\n}\n\n// goverter:converter\n// goverter:ignoreMissing\n%stype C%d interface {\n\t// goverter:useZeroValueOnPointerInconsistency\n", i, i, head(i), i)
				switch q["setting"] {
				case "map":
					src.WriteString("\t// goverter:map B C\n")
				case "ignore":
					src.WriteString("\t// goverter:ignore C\n")
				}
				fmt.Fprintf(&src, "\tConv(source *XS%d) XT%d\n", i, i)
				switch q["second"] {
				case "slice":
					fmt.Fprintf(&src, "\tAAll(source []XS%d) []XT%d\n", i, i)
				case "value":
					fmt.Fprintf(&src, "\tAV(source XS%d) XT%d\n", i, i)
				}
				src.WriteString("}\n")
			case "reuse":
				fmt.Fprintf(&src, "\ntype XI%d struct{ C int }\ntype XS%d struct {\n\tA int\n\tB int\n\tInner XI%d\n}\ntype XT%d struct {\n\tA int\n\tC int\n}\n\n// goverter:converter\n// goverter:ignoreMissing\n%stype C%d interface {\n", i, i, i, i, head(i), i)
				switch q["setting"] {
				case "map":
					src.WriteString("\t// goverter:map B C\n")
				case "ignore":
					src.WriteString("\t// goverter:ignore C\n")
				case "autoMap":
					src.WriteString("\t// goverter:autoMap Inner\n")
				}
				fmt.Fprintf(&src, "\tConv(source *XS%d) *XT%d\n", i, i)
				switch q["second"] {
				case "slice":
					fmt.Fprintf(&src, "\tConvAll(source []XS%d) []XT%d\n", i, i)
				case "value":
					fmt.Fprintf(&src, "\tConvV(source XS%d) XT%d\n", i, i)
				}
				src.WriteString("}\n")
			}
		case "acc":
			if s.Side == "same-package" {
				// the converter lives in package sp and is generated into sp itself
				fmt.Fprintf(&srcSP, "\n// goverter:converter\n// goverter:output:file ./c%d.go\n// goverter:output:package %s/sp\ntype C%d interface {\n", i, b.Mod, i)
				switch s.Setting {
				case "ignore":
					srcSP.WriteString("\t// goverter:ignore secret\n")
				case "ignoreUnexported":
					srcSP.WriteString("\t// goverter:ignoreUnexported\n")
				}
				srcSP.WriteString("\tConv(source SS) TS\n}\n")
				drvLines[i]["ins"] = []any{stv(lit(5), lit(6))}
				samePkg[i] = true
				continue
			}
			st, tt := "q.SQ1", "q.TQ"
			line := ""
			if s.Side == "target-unexported" {
				switch s.Setting {
				case "ignore":
					line = "ignore secret"
				case "ignoreUnexported":
					line = "ignoreUnexported"
				case "map":
					line = "map B secret"
				case "mapfunc":
					line = "map B secret | Fn"
				case "ignoreMissing":
					line = "ignoreMissing"
				}
			} else {
				st, tt = "q.SQ2", "q.TQ2"
				switch s.Setting {
				case "ignore":
					line = "ignore Open"
				case "ignoreUnexported":
					line = "ignoreUnexported"
				case "map":
					line = "map hidden Open"
				case "mapfunc":
					line = "map hidden Open | Fn"
				case "ignoreMissing":
					line = "ignoreMissing"
				case "mappath":
					st, line = "q.SQ3", "map inner.X Open"
				case "automap":
					st, line = "q.SQ3", "autoMap inner"
				}
			}
			fmt.Fprintf(&src, "\n// goverter:converter\n%stype C%d interface {\n", head(i), i)
			if line != "" {
				src.WriteString("\t// goverter:" + line + "\n")
			}
			fmt.Fprintf(&src, "\tConv(source %s) %s\n}\n", st, tt)
		case "default":
			var p defProg
			hx.Must(json.Unmarshal(s.Prog, &p))
			dprogs[i] = p
			st, tt, ft, farg, fbody := "DS", "DT", "DT", "", "DT{A: 100, B: 200}"
			if p.SrcPtr {
				st = "*DS"
			}
			if p.TgtPtr {
				tt = "*DT"
			}
			if p.FuncPtr {
				ft, fbody = "*DT", "&DT{A: 100, B: 200}"
			}
			if p.FuncSrc {
				farg = "source " + st
			}
			fmt.Fprintf(&src, "\nfunc NewT%d(%s) %s { return %s }\n\n// goverter:converter\n%stype C%d interface {\n\t// goverter:default NewT%d\n", i, farg, ft, fbody, head(i), i, i)
			if p.Upd {
				src.WriteString("\t// goverter:default:update\n")
			}
			if p.SrcPtr && !p.TgtPtr && !p.NoFlag {
				src.WriteString("\t// goverter:useZeroValueOnPointerInconsistency\n")
			}
			if p.ZSkip {
				src.WriteString("\t// goverter:update:ignoreZeroValueField\n")
			}
			if p.IgnoreB {
				src.WriteString("\t// goverter:ignore B\n")
			}
			fmt.Fprintf(&src, "\tConv(source %s) %s\n}\n", st, tt)
			var val any = stv(lit(5), lit(6))
			var zb any = stv(lit(5), lit(0))
			ins := []any{val, zb}
			if p.SrcPtr {
				ins = []any{ptrv(val), ptrv(zb), nilv()}
			}
			drvLines[i]["ins"] = ins
		case "update-iface":
			// an update method whose zero-value guard compares a struct that holds an interface (C18: no reflect)
			fmt.Fprintf(&src, "\n// goverter:converter\n// goverter:skipCopySameType\n%stype C%d interface {\n\t// goverter:update target\n\t// goverter:update:ignoreZeroValueField:struct\n\tUpdate(source USI, target *UTI)\n}\n", head(i), i)
		case "default-update-rec":
			// default:update on a recursive type: the seen rule creates a helper for DR -> DRO and the method is rebuilt
			fmt.Fprintf(&src, "\n// goverter:converter\n// goverter:ignoreMissing\n%stype C%d interface {\n\t// goverter:default NewDRO\n\t// goverter:default:update\n\tConv(source *DR) *DRO\n}\n", head(i), i)
			drvLines[i]["ins"] = []any{ptrv(stv(lit(5), map[string]any{"k": "nil"}))}
		case "default-update-shared":
			// default:update next to a list method that makes goverter generate a helper for DV -> DVO
			var q map[string]any
			hx.Must(json.Unmarshal(s.Prog, &q))
			if q["x"] == "shared-value-source" {
				// a value source with a pointer target writes through FUNC's pointer also without default:update
				fmt.Fprintf(&src, "\n// goverter:converter\n// goverter:ignoreMissing\n%stype C%d interface {\n\tAll(source []DV) []DVO\n\t// goverter:default NewDVO\n\tConv(source DV) *DVO\n}\n", head(i), i)
				drvLines[i]["ins"] = []any{stv(lit(5))}
				break
			}
			fmt.Fprintf(&src, "\n// goverter:converter\n// goverter:ignoreMissing\n%stype C%d interface {\n\tAll(source []DV) []DVO\n\t// goverter:default NewDVO\n\t// goverter:default:update\n\tConv(source *DV) *DVO\n}\n", head(i), i)
			drvLines[i]["ins"] = []any{ptrv(stv(lit(5)))}
		case "mapfunc-parent":
			fmt.Fprintf(&src, "\n// goverter:converter\n%stype C%d interface {\n\t// goverter:map Next NextV | NextVal\n\t// goverter:map . Sum | Summarize\n\t// goverter:map . Self\n\tConv(source *MN) *MNO\n}\n", head(i), i)
			drvLines[i]["ins"] = []any{ptrv(stv(lit(5), ptrv(stv(lit(7), nilv()))))}
		case "update-tnc":
			fmt.Fprintf(&src, "\n// goverter:converter\n// goverter:ignoreMissing\n%stype C%d interface {\n\t// goverter:update target\n\t// goverter:update:ignoreZeroValueField:struct\n\tUpdate(source UCS, target *UCT)\n}\n", head(i), i)
			drvLines[i]["calls"] = []drvCall{{Args: []any{stv(stv(lit(0))), ptrv(stv(stv(lit(9), map[string]any{"k": "s", "a": "i", "es": []any{lit(9)}})))}, Dump: []int{1}}}
		case "update-cat":
			var q map[string]bool
			hx.Must(json.Unmarshal(s.Prog, &q))
			fl := ""
			if q["basic"] {
				fl += "\t// goverter:update:ignoreZeroValueField:basic\n"
			}
			if q["nillable"] {
				fl += "\t// goverter:update:ignoreZeroValueField:nillable\n"
			}
			fmt.Fprintf(&src, "\n// goverter:converter\n// goverter:useZeroValueOnPointerInconsistency\n%stype C%d interface {\n\t// goverter:update target\n%s\tUpdate(source UBS, target *UBT)\n}\n", head(i), i, fl)
			zs := map[string]any{"k": "b", "tok": "z"}
			preT := func() any { return ptrv(stv(ptrv(lit(9)), ptrv(lit(9)), lit(9))) }
			drvLines[i]["calls"] = []drvCall{{Args: []any{stv(lit(0), zs, nilv()), preT()}, Dump: []int{1}}, {Args: []any{stv(lit(7), lit(7), ptrv(lit(7))), preT()}, Dump: []int{1}}}
		case "update-odd":
			var q map[string]any
			hx.Must(json.Unmarshal(s.Prog, &q))
			if q["x"] == "underlying-fallible-top" {
				fmt.Fprintf(&src, "\ntype InID%d string\ntype OutID%d int\n\n// goverter:converter\n// goverter:useUnderlyingTypeMethods\n// goverter:extend AtoiU\n%stype C%d interface {\n\tUpdate(source InID%d) (OutID%d, error)\n}\n", i, i, head(i), i, i, i)
			} else if q["x"] == "default-unexported" {
				fmt.Fprintf(&src, "\nfunc newDT%d() *DT { return &DT{} }\n\n// goverter:converter\n%stype C%d interface {\n\t// goverter:default newDT%d\n\tUpdate(source *DS) *DT\n}\n", i, head(i), i, i)
			} else if q["x"] == "ignoremissing-map-value" {
				fmt.Fprintf(&src, "\ntype MS%d struct{ M map[string]struct{ A int } }\ntype MT%d struct{ M map[string]struct{ B int } }\n\n// goverter:converter\n// goverter:ignoreMissing\n%stype C%d interface {\n\tUpdate(source MS%d) MT%d\n}\n", i, i, head(i), i, i, i)
			} else if q["x"] == "pointer-source-fault" {
				fmt.Fprintf(&src, "\n// goverter:converter\n%stype C%d interface {\n\t// goverter:update target\n\tUpdate(source *UWS, target *UWT)\n}\n", head(i), i)
			} else if q["x"] == "noncomparable-struct" {
				fmt.Fprintf(&src, "\n// goverter:converter\n// goverter:skipCopySameType\n%stype C%d interface {\n\t// goverter:update target\n\t// goverter:update:ignoreZeroValueField:struct\n\tUpdate(source UOS, target *UOT)\n}\n", head(i), i)
			} else {
				fmt.Fprintf(&src, "\n// goverter:converter\n// goverter:skipCopySameType\n%stype C%d interface {\n\t// goverter:update target\n\t// goverter:map . All\n\tUpdate(source *UDS, target *UDT)\n}\n", head(i), i)
			}
		case "mapfunc-wrap":
			var q map[string]any
			hx.Must(json.Unmarshal(s.Prog, &q))
			wl := "// goverter:wrapErrors\n"
			if q["x"] == "using" {
				wl = "// goverter:wrapErrorsUsing " + b.Mod + "/wx\n"
			}
			fmt.Fprintf(&src, "\n// goverter:converter\n%s%stype C%d interface {\n\t// goverter:map V | AtoiU\n\tConv(source UWS) (UWT, error)\n}\n", wl, head(i), i)
			drvLines[i]["ins"] = []any{stv(map[string]any{"k": "b", "tok": "#x"})}
		case "update-wrap":
			var q map[string]any
			hx.Must(json.Unmarshal(s.Prog, &q))
			wl := "// goverter:wrapErrors\n"
			if q["x"] == "using" {
				wl = "// goverter:wrapErrorsUsing " + b.Mod + "/wx\n"
			}
			fmt.Fprintf(&src, "\n// goverter:converter\n// goverter:extend AtoiU\n%s%stype C%d interface {\n\t// goverter:update target\n\tUpdate(source UWS, target *UWT) error\n}\n", wl, head(i), i)
			drvLines[i]["calls"] = []drvCall{{Args: []any{stv(map[string]any{"k": "b", "tok": "#x"}), ptrv(stv(lit(9)))}, Dump: []int{1}}}
		case "default-declared-inner":
			var q map[string]any
			hx.Must(json.Unmarshal(s.Prog, &q))
			if q["x"] == "value-to-ptr" {
				fmt.Fprintf(&src, "\n// goverter:converter\n// goverter:ignoreMissing\n%stype C%d interface {\n\t// goverter:map V | Twice\n\tInner(source DV) DVO\n\t// goverter:default NewDVO\n\tConv(source DV) *DVO\n}\n", head(i), i)
				drvLines[i]["ins"] = []any{stv(lit(5))}
			} else {
				fmt.Fprintf(&src, "\n// goverter:converter\n// goverter:ignoreMissing\n%stype C%d interface {\n\t// goverter:map V | Twice\n\tInner(source DV) DVO\n\t// goverter:default NewDVO\n\t// goverter:default:update\n\tConv(source *DV) *DVO\n}\n", head(i), i)
				drvLines[i]["ins"] = []any{ptrv(stv(lit(5)))}
			}
		case "default-fallible":
			fmt.Fprintf(&src, "\n// goverter:converter\n// goverter:extend AtoiU\n%stype C%d interface {\n\t// goverter:default NewUWT\n\tConv(source UWS) (UWT, error)\n}\n", head(i), i)
			drvLines[i]["ins"] = []any{stv(map[string]any{"k": "b", "tok": "#x"})}
		case "default-map":
			fmt.Fprintf(&src, "\n// goverter:converter\n%stype C%d interface {\n\t// goverter:default NewDM\n\tConv(source map[string]int) map[string]int\n}\n", head(i), i)
			drvLines[i]["ins"] = []any{nilv(), map[string]any{"k": "m", "a": "i", "kv": []any{[]any{map[string]any{"k": "b", "tok": "#k"}, lit(5)}}}}
		case "default-list":
			// default on a list method: the constructor is not taken by the list rule; the elements are struct -> *struct
			fmt.Fprintf(&src, "\n// goverter:converter\n%stype C%d interface {\n\t// goverter:default NewDL\n\tConv(source []struct{ A int }) []*struct{ A int }\n}\n", head(i), i)
			drvLines[i]["ins"] = []any{map[string]any{"k": "s", "es": []any{stv(lit(5))}}}
		case "default-rebuild":
			fmt.Fprintf(&src, "\n// goverter:converter\n%stype C%d interface {\n\t// goverter:default NewT2\n\tConv(source *DS2) *DT2\n}\n", head(i), i)
			drvLines[i]["ins"] = []any{nilv()}
		case "update":
			var p updProg
			hx.Must(json.Unmarshal(s.Prog, &p))
			uprogs[i] = p
			fmt.Fprintf(&src, "\n// goverter:converter\n")
			if p.Skip {
				src.WriteString("// goverter:skipCopySameType\n")
			}
			fmt.Fprintf(&src, "%stype C%d interface {\n\t// goverter:update target\n", head(i), i)
			if p.Comb {
				src.WriteString("\t// goverter:update:ignoreZeroValueField\n")
				p.Basic, p.Struct, p.Nillable = false, false, false
			}
			if p.Basic {
				src.WriteString("\t// goverter:update:ignoreZeroValueField:basic\n")
			}
			if p.Struct {
				src.WriteString("\t// goverter:update:ignoreZeroValueField:struct\n")
			}
			if p.Nillable {
				src.WriteString("\t// goverter:update:ignoreZeroValueField:nillable\n")
			}
			if p.IgnoreA {
				src.WriteString("\t// goverter:ignore A\n")
			}
			src.WriteString("\t// goverter:map L LS | ToS\n")
			st := "US"
			if p.SrcPtr {
				st = "*US"
			}
			ret := ""
			if p.RetErr {
				ret = " error"
			}
			fmt.Fprintf(&src, "\tUpdate(source %s, target *UT)%s\n}\n", st, ret)
			mapv := func(n int) any {
				return map[string]any{"k": "m", "a": "i", "kv": []any{[]any{map[string]any{"k": "b", "tok": "#k"}, lit(n)}}}
			}
			pre := func() any {
				return ptrv(stv(lit(9), stv(lit(9)), ptrv(lit(9)), map[string]any{"k": "s", "a": "i", "es": []any{lit(9)}}, map[string]any{"k": "s", "a": "i", "es": []any{map[string]any{"k": "b", "tok": "#9"}}}, mapv(9), mapv(9), ptrv(stv(lit(9)))))
			}
			calls := []drvCall{}
			for _, nz := range s.Vals {
				a, n, pv, l := lit(0), stv(lit(0)), any(nilv()), any(nilv())
				if has(nz, "A") {
					a = lit(7)
				}
				if has(nz, "N") {
					n = stv(lit(7))
				}
				if has(nz, "P") {
					pv = ptrv(lit(7))
				}
				if has(nz, "L") {
					l = map[string]any{"k": "s", "a": "i", "es": []any{lit(7)}}
				}
				mv, nmv := any(nilv()), any(nilv())
				if has(nz, "M") {
					mv = mapv(7)
				}
				if has(nz, "NM") {
					nmv = mapv(7)
				}
				phv := any(nilv())
				if has(nz, "PH") {
					phv = ptrv(stv(lit(7)))
				}
				var sv any = stv(a, n, pv, l, mv, nmv, phv)
				if p.SrcPtr {
					sv = ptrv(sv)
				}
				calls = append(calls, drvCall{Args: []any{sv, pre()}, Dump: []int{1}})
			}
			if p.SrcPtr {
				calls = append(calls, drvCall{Args: []any{nilv(), pre()}, Dump: []int{1}})
			}
			drvLines[i]["calls"] = calls
		}
	}
	hx.WriteTree(*work, map[string]string{"p/in.go": src.String(), "sp/in.go": srcSP.String(), "wx/wx.go": wxSource,
		"q/q.go": "package q\n\ntype SQ1 struct {\n\tOpen int\n\tB    int\n}\ntype TQ struct {\n\tOpen   int\n\tsecret int\n}\ntype SQ2 struct {\n\thidden int\n\tB      int\n}\ntype TQ2 struct{ Open int }\ntype Inner3 struct{ X, Open int }\ntype SQ3 struct {\n\tinner Inner3\n\tB     int\n}\n\nfunc (t TQ) Secret() int { return t.secret }\nfunc NewSQ2(h int) SQ2 { return SQ2{hidden: h} }\n"})
	t0 := time.Now()
	all, err := hx.GenerateEach(hx.GenConfig(*work, []string{"./p", "./sp"}, nil))
	hx.Must(err)
	b.Timing["gen"] = time.Since(t0)
	if len(all) != len(scens) {
		panic("result count mismatch")
	}
	outs := make([]hx.Outcome, len(scens))
	for _, o := range all {
		var k int
		if _, err := fmt.Sscanf(o.Name, "C%d", &k); err != nil {
			panic("cannot attribute outcome " + o.Name)
		}
		outs[k] = o
	}
	drvScen := filepath.Join(*work, "drv.ndjson")
	w, err := hx.NewNDWriter(drvScen)
	hx.Must(err)
	for i, o := range outs {
		if o.Gen == "ok" {
			b.WriteOutputs(i, o.Files)
			m := "Conv"
			if scens[i].Kind == "update" || scens[i].Kind == "update-iface" || scens[i].Kind == "update-wrap" || scens[i].Kind == "update-odd" || scens[i].Kind == "update-tnc" || scens[i].Kind == "update-cat" {
				m = "Update"
			}
			b.Reg[i] = fmt.Sprintf("reflect.ValueOf((&gen.C%dImpl{}).%s)", i, m)
			if samePkg[i] {
				b.Reg[i] = fmt.Sprintf("reflect.ValueOf((&sp.C%dImpl{}).%s)", i, m)
			} else if scens[i].Kind == "acc" {
				drvLines[i]["ins"] = []any{}
			}
			if scens[i].Kind == "fieldx" && len(drvLines[i]["ins"].([]any)) > 0 {
				// the converter of a method program has exactly one method named Conv
			}
			w.Write(drvLines[i])
		} else {
			w.Write(map[string]any{"ins": []any{}})
		}
	}
	w.Close()
	var extra []string
	for i := range samePkg {
		if b.OK[i] {
			extra = []string{"sp \"" + b.Mod + "/sp\""}
		}
	}
	hx.Must(b.BuildDriver(extra, false))
	recs, _, err := b.RunDriver(drvScen, "seq")
	hx.Must(err)
	byID := map[int][]map[string]any{}
	for _, r := range recs {
		id := int(r["id"].(float64))
		byID[id] = append(byID[id], r)
	}
	obs, err := hx.NewNDWriter(*obsFile)
	hx.Must(err)
	defer obs.Close()
	nOK, nExec := 0, 0
	for i, o := range outs {
		s := scens[i]
		_, badc := b.BadComp[i]
		why := ""
		if o.Gen == "panic" {
			why = hx.PanicClass(o.Why)
		}
		if o.Gen == "ok" {
			nOK++
		}
		base := map[string]any{"id": i, "kind": s.Kind, "gen": o.Gen, "why": why, "compiles": !badc, "diag": firstLine(o.Why)}
		if s.Kind != "update" && s.Kind != "default" {
			base["imports"], base["decls"] = hx.DescribeFiles(o.Files, map[string]string{b.Mod + "/p": "user", b.Mod + "/q": "user-q", b.Mod + "/wx": "wrap-pkg"})
		}
		switch s.Kind {
		case "field":
			base["prog"] = s.Prog
			base["full"], base["pnil"] = -1, -1
			base["panic"] = false
			for _, r := range byID[i] {
				nExec++
				v := -2
				if r["panic"] == true {
					base["panic"] = true
				}
				if r["panic"] != true {
					v = litOf(r["out"].(map[string]any)["fs"].([]any)[0])
				}
				if int(r["j"].(float64)) == 0 {
					base["full"] = v
				} else {
					base["pnil"] = v
				}
			}
			obs.Write(base)
		case "acc":
			base["side"], base["setting"] = s.Side, s.Setting
			base["res"] = map[string]any{"open": -1, "secret": -1}
			for _, r := range byID[i] {
				nExec++
				if r["panic"] != true {
					if f, ok := r["out"].(map[string]any)["fs"].([]any); ok && len(f) == 2 {
						base["res"] = map[string]any{"open": litOf(f[0]), "secret": litOf(f[1])}
					}
				}
			}
			obs.Write(base)
		case "fieldx":
			base["prog"] = s.Prog
			base["full"] = -1
			var q map[string]any
			hx.Must(json.Unmarshal(s.Prog, &q))
			if q["x"] == "misc" {
				vals := []int{98, 98}
				base["panic"] = false
				for _, r := range byID[i] {
					nExec++
					if r["panic"] == true {
						base["panic"] = true
						continue
					}
					j := int(r["j"].(float64))
					f := r["out"].(map[string]any)["fs"].([]any)
					first := func(v any) int {
						m := v.(map[string]any)
						switch m["k"] {
						case "nil":
							return 99
						case "s":
							if es := m["es"].([]any); len(es) == 1 {
								return litOf(es[0])
							}
							return -3
						case "st":
							return litOf(m["fs"].([]any)[0])
						}
						return litOf(v)
					}
					switch q["sub"] {
					case "path-slice":
						vals[j] = first(f[0])
					default:
						vals[0], vals[1] = first(f[0]), first(f[1])
					}
				}
				base["vals"] = vals
				obs.Write(base)
				continue
			}
			for _, r := range byID[i] {
				nExec++
				if r["panic"] != true {
					if outs, okk := r["outs"].([]any); okk && len(outs) > 0 {
						base["full"] = litOf(outs[0].(map[string]any)["fs"].([]any)[0])
					} else {
						base["full"] = litOf(r["out"].(map[string]any)["fs"].([]any)[0])
					}
				}
			}
			obs.Write(base)
		case "update-iface":
			obs.Write(base)
		case "update-odd":
			base["prog"] = s.Prog
			obs.Write(base)
		case "update-cat":
			base["prog"] = s.Prog
			base["panic"] = false
			posts := [][]string{{"other", "other", "other"}, {"other", "other", "other"}}
			for _, r := range byID[i] {
				nExec++
				j := int(r["j"].(float64))
				if r["panic"] == true || j > 1 {
					base["panic"] = true
					continue
				}
				t := r["after"].([]any)[0].(map[string]any)["e"].(map[string]any)["fs"].([]any)
				val := func(v any) int {
					m := v.(map[string]any)
					if m["k"] == "p" {
						return litOf(m["e"])
					}
					if m["k"] == "nil" {
						return -1
					}
					return litOf(m)
				}
				for k := 0; k < 3; k++ {
					switch v := val(t[k]); {
					case v == 9:
						posts[j][k] = "keep"
					case j == 1 && v == 7, j == 0 && v == 0:
						posts[j][k] = "conv"
					}
				}
			}
			base["postZero"], base["postFull"] = posts[0], posts[1]
			obs.Write(base)
		case "update-tnc":
			base["prog"] = s.Prog
			base["panic"], base["post"] = false, -1
			for _, r := range byID[i] {
				nExec++
				if r["panic"] == true {
					base["panic"] = true
					continue
				}
				t := r["after"].([]any)[0].(map[string]any)["e"].(map[string]any)["fs"].([]any)
				base["post"] = litOf(t[0].(map[string]any)["fs"].([]any)[0])
			}
			obs.Write(base)
		case "default-update-rec", "default-update-shared", "default-declared-inner":
			base["prog"] = s.Prog
			base["panic"] = false
			base["res"] = map[string]any{"nil": true, "A": 0, "B": 0}
			for _, r := range byID[i] {
				nExec++
				if r["panic"] == true {
					base["panic"] = true
				} else if out := r["out"].(map[string]any); out["k"] == "p" {
					f := out["e"].(map[string]any)["fs"].([]any)
					base["res"] = map[string]any{"nil": false, "A": litOf(f[0]), "B": litOf(f[1])}
				}
			}
			obs.Write(base)
		case "mapfunc-parent":
			base["prog"] = s.Prog
			base["res"] = map[string]any{"A": -2, "B": -2, "selfShared": false, "selfV": -1}
			for _, r := range byID[i] {
				nExec++
				if r["panic"] != true {
					if out := r["out"].(map[string]any); out["k"] == "p" {
						f := out["e"].(map[string]any)["fs"].([]any)
						res := map[string]any{"A": litOf(f[1]), "B": litOf(f[2]), "selfShared": false, "selfV": -1}
						if sp, ok := f[3].(map[string]any); ok && sp["k"] == "p" {
							lab, _ := sp["a"].(string)
							res["selfShared"] = lab != "" && lab != "o"
							res["selfV"] = litOf(sp["e"].(map[string]any)["fs"].([]any)[0])
						}
						base["res"] = res
					}
				}
			}
			obs.Write(base)
		case "update-wrap", "mapfunc-wrap", "default-fallible":
			base["prog"] = s.Prog
			base["err"], base["path"] = "", []string{}
			for _, r := range byID[i] {
				nExec++
				e, _ := r["err"].(string)
				path := []string{}
				if strings.HasPrefix(e, "path:") {
					parts := strings.SplitN(strings.TrimPrefix(e, "path:"), "|", 2)
					if parts[0] != "" {
						path = strings.Split(parts[0], "/")
					}
					e = parts[1]
				}
				for strings.HasPrefix(e, "error setting field ") {
					rest := strings.TrimPrefix(e, "error setting field ")
					k := strings.Index(rest, ": ")
					if k < 0 {
						break
					}
					path = append(path, rest[:k])
					e = rest[k+2:]
				}
				base["err"], base["path"] = e, path
			}
			obs.Write(base)
		case "default-map":
			base["prog"] = s.Prog
			base["panic"] = false
			res := map[string]any{"A": -1, "B": -1}
			for _, r := range byID[i] {
				nExec++
				if r["panic"] == true {
					base["panic"] = true
					continue
				}
				j := int(r["j"].(float64))
				if out := r["out"].(map[string]any); out["k"] == "m" {
					for _, kv := range out["kv"].([]any) {
						p := kv.([]any)
						key, _ := p[0].(map[string]any)["tok"].(string)
						if j == 0 && key == "#origin" {
							res["A"] = litOf(p[1])
						}
						if j == 1 && key == "#k" {
							res["B"] = litOf(p[1])
						}
					}
				}
			}
			base["res"] = res
			obs.Write(base)
		case "default-list":
			base["prog"] = s.Prog
			base["panic"] = false
			base["res"] = map[string]any{"nil": true, "A": 0}
			for _, r := range byID[i] {
				nExec++
				if r["panic"] == true {
					base["panic"] = true
				} else if out := r["out"].(map[string]any); out["k"] == "s" {
					if es := out["es"].([]any); len(es) == 1 {
						if e := es[0].(map[string]any); e["k"] == "p" {
							base["res"] = map[string]any{"nil": false, "A": litOf(e["e"].(map[string]any)["fs"].([]any)[0])}
						}
					}
				}
			}
			obs.Write(base)
		case "default-rebuild":
			base["prog"] = s.Prog
			base["res"] = map[string]any{"nil": true, "A": 0}
			for _, r := range byID[i] {
				nExec++
				if r["panic"] != true {
					if out := r["out"].(map[string]any); out["k"] == "p" {
						base["res"] = map[string]any{"nil": false, "A": litOf(out["e"].(map[string]any)["fs"].([]any)[0])}
					}
				}
			}
			obs.Write(base)
		case "default":
			if o.Gen != "ok" || badc {
				base["prog"], base["panic"], base["srcNil"], base["zeroB"], base["res"] = s.Prog, false, false, false, map[string]any{"nil": true, "A": 0, "B": 0}
				obs.Write(base)
				continue
			}
			for _, r := range byID[i] {
				nExec++
				j := int(r["j"].(float64))
				rec := map[string]any{"id": i, "kind": "default", "gen": o.Gen, "why": "", "compiles": true, "prog": s.Prog, "panic": r["panic"] == true, "srcNil": dprogs[i].SrcPtr && j == 2, "zeroB": j == 1}
				res := map[string]any{"nil": true, "A": 0, "B": 0}
				if r["panic"] != true {
					out := r["out"].(map[string]any)
					if out["k"] == "p" {
						out = out["e"].(map[string]any)
					}
					if out["k"] == "st" {
						f := out["fs"].([]any)
						res = map[string]any{"nil": false, "A": litOf(f[0]), "B": litOf(f[1])}
					}
				}
				rec["res"] = res
				obs.Write(rec)
			}
		case "update":
			if o.Gen != "ok" || badc {
				base["prog"], base["panic"], base["srcNil"], base["nonzero"], base["post"] = s.Prog, false, false, []string{}, []string{"other", "other", "other", "other", "other", "other", "other", "other"}
				obs.Write(base)
				continue
			}
			// one generation record per update program for C18 (imports / declarations of the emitted file)
			gi, gd := hx.DescribeFiles(o.Files, map[string]string{b.Mod + "/p": "user", b.Mod + "/q": "user-q", b.Mod + "/wx": "wrap-pkg"})
			obs.Write(map[string]any{"id": i, "kind": "genfile", "gen": "ok", "why": "", "compiles": true, "imports": gi, "decls": gd})
			for _, r := range byID[i] {
				nExec++
				j := int(r["j"].(float64))
				rec := map[string]any{"id": i, "kind": "update", "gen": o.Gen, "why": "", "compiles": true, "prog": s.Prog, "panic": r["panic"] == true}
				srcNil := j >= len(s.Vals)
				rec["srcNil"] = srcNil
				nz := []string{}
				if !srcNil {
					nz = s.Vals[j]
				}
				rec["nonzero"] = nz
				post := []string{"other", "other", "other", "other", "other", "other", "other", "other"}
				if r["panic"] != true {
					t := r["after"].([]any)[0].(map[string]any)["e"].(map[string]any)["fs"].([]any)
					if ph, ok := t[7].(map[string]any); ok {
						switch {
						case ph["k"] == "nil":
							if !has(nz, "PH") {
								post[7] = "conv" // the nil source pointer was assigned
							}
						case ph["k"] == "p":
							switch v := litOf(ph["e"].(map[string]any)["fs"].([]any)[0]); {
							case v == 9:
								post[7] = "keep"
							case v == 7 && has(nz, "PH"):
								post[7] = "conv"
							}
						}
					}
					for k, f := range []string{"M", "NM"} {
						mf := t[5+k].(map[string]any)
						switch {
						case mf["k"] == "nil":
							if !has(nz, f) {
								post[5+k] = "conv" // the nil source map was assigned
							}
						default:
							if kv := mf["kv"].([]any); len(kv) == 1 {
								switch v := litOf(kv[0].([]any)[1]); {
								case v == 9:
									post[5+k] = "keep"
								case v == 7 && has(nz, f):
									post[5+k] = "conv"
								}
							}
						}
					}
				}
				if r["panic"] != true {
					t := r["after"].([]any)[0].(map[string]any)["e"].(map[string]any)["fs"].([]any)
					want := func(f string) int {
						if has(nz, f) {
							return 7
						}
						return 0
					}
					cls := func(v, src int) string {
						switch v {
						case 9:
							return "keep"
						case src:
							return "conv"
						}
						return "other"
					}
					post[0] = cls(litOf(t[0]), want("A"))
					post[1] = cls(litOf(t[1].(map[string]any)["fs"].([]any)[0]), want("N"))
					pf := t[2].(map[string]any)
					switch {
					case pf["k"] == "nil":
						post[2] = cls(-1, map[bool]int{true: 7, false: -1}[has(nz, "P")])
					default:
						post[2] = cls(litOf(pf["e"]), 7)
						if litOf(pf["e"]) == 7 && !has(nz, "P") {
							post[2] = "other"
						}
					}
					lf := t[3].(map[string]any)
					switch {
					case lf["k"] == "nil":
						post[3] = cls(-1, map[bool]int{true: 7, false: -1}[has(nz, "L")])
					default:
						es := lf["es"].([]any)
						if len(es) == 1 {
							post[3] = cls(litOf(es[0]), 7)
							if litOf(es[0]) == 7 && !has(nz, "L") {
								post[3] = "other"
							}
						}
					}
				}
				if r["panic"] != true {
					t := r["after"].([]any)[0].(map[string]any)["e"].(map[string]any)["fs"].([]any)
					if ls, ok := t[4].(map[string]any); ok && ls["k"] == "s" {
						if es := ls["es"].([]any); len(es) == 1 {
							switch es[0].(map[string]any)["tok"] {
							case "#9":
								post[4] = "keep"
							case "#7":
								post[4] = "conv"
							}
						}
					}
				}
				rec["post"] = post
				obs.Write(rec)
			}
		}
	}
	js, _ := json.Marshal(map[string]any{"scenarios": len(scens), "generated": nOK, "uncompilable": len(b.BadComp), "executions": nExec,
		"gen_s": b.Timing["gen"].Seconds(), "build_s": b.Timing["build"].Seconds(), "exec_s": b.Timing["exec"].Seconds()})
	fmt.Println("HARNESS-SUMMARY " + string(js))
}
