package main

import (
	"encoding/json"
	"flag"
	"fmt"
	"strings"
	"time"

	"github.com/jmattheis/goverter"
	"github.com/jmattheis/goverter/config"
	"verifharness/hx"
)

type line struct {
	Key string `json:"key"`
	Val string `json:"val"`
}

type textScen struct {
	Kind     string   `json:"kind"`
	Cli      []line   `json:"cli"`
	Conv     []line   `json:"conv"`
	Meth     []line   `json:"meth"`
	Sib      []line   `json:"sib"`
	CliText  []string `json:"cliText"`
	ConvText []string `json:"convText"`
	MethText []string `json:"methText"`
	SibText  []string `json:"sibText"`
}

func commonRec(c config.Common) map[string]any {
	rx := ""
	if c.ArgContextRegex != nil {
		rx = c.ArgContextRegex.String()
	}
	return map[string]any{
		"wrapErrors": c.WrapErrors, "wrapErrorsUsing": c.WrapErrorsUsing, "ignoreUnexported": c.IgnoreUnexported,
		"zBasic": c.IgnoreBasicZeroValueField, "zStruct": c.IgnoreStructZeroValueField, "zNillable": c.IgnoreNillableZeroValueField,
		"defaultUpdate": c.DefaultUpdate, "matchIgnoreCase": c.MatchIgnoreCase, "ignoreMissing": c.IgnoreMissing,
		"skip": c.SkipCopySameType, "zero": c.UseZeroValueOnPointerInconsistency, "under": c.UseUnderlyingTypeMethods,
		"enum": c.Enum.Enabled, "enumUnknown": c.Enum.Unknown, "ctxRegex": rx,
	}
}

// cmdText: settings scenarios. One converter per scenario with a method under test and a sibling method.
func cmdText(args []string) {
	fs := flag.NewFlagSet("text", flag.ExitOnError)
	scenFile := fs.String("scen", "", "")
	obsFile := fs.String("obs", "", "")
	work := fs.String("work", "", "")
	fs.Parse(args)

	var scens []textScen
	hx.Must(hx.ReadNDJSON(*scenFile, func(i int, b []byte) error {
		var s textScen
		if err := json.Unmarshal(b, &s); err != nil {
			return err
		}
		scens = append(scens, s)
		return nil
	}))
	var src strings.Builder
	src.WriteString("package p\n\ntype In struct{ C int }\ntype S struct {\n\tA     int\n\tNick  *string\n\tInner In\n\tPI    *In\n}\ntype T struct{ A int }\ntype S2 struct {\n\tA string\n\tB int\n}\ntype T2 struct {\n\tA string\n\tB int\n}\n\nfunc Fixed() int { return 1 }\nfunc ToA(v int) int { return v }\nfunc NewT() T { return T{} }\nfunc NewT2() *T2 { return &T2{} }\n")
	for i, s := range scens {
		src.WriteString("\n// goverter:converter\n")
		for _, l := range s.ConvText {
			src.WriteString("// goverter:" + l + "\n")
		}
		fmt.Fprintf(&src, "type C%d interface {\n", i)
		for _, l := range s.MethText {
			src.WriteString("\t// goverter:" + l + "\n")
		}
		src.WriteString("\tConv(source S) T\n")
		for _, l := range s.SibText {
			src.WriteString("\t// goverter:" + l + "\n")
		}
		src.WriteString("\t// goverter:update target\n\tSib(source S2, target *T2)\n}\n")
	}
	hx.WriteTree(*work, map[string]string{"go.mod": "module v.test/b\ngo 1.18\n", "p/in.go": src.String(),
		"wx/wx.go": wrapPkg("wx"), "wy/wy.go": wrapPkg("wy")})
	t0 := time.Now()
	cfg := hx.GenConfig(*work, []string{"./p"}, nil)
	res, err := goverter.GenerateEachVerifOpts(cfg, goverter.EachOpts{GlobalFor: func(name string) []string {
		var i int
		fmt.Sscanf(name, "C%d", &i)
		return scens[i].CliText
	}})
	hx.Must(err)
	if len(res) != len(scens) {
		panic(fmt.Sprint("result count ", len(res), " != ", len(scens)))
	}
	gen := time.Since(t0)
	obs, err := hx.NewNDWriter(*obsFile)
	hx.Must(err)
	defer obs.Close()
	nOK, nErr, nPanic := 0, 0, 0
	for i, r := range res {
		s := scens[i]
		rec := map[string]any{"id": i, "kind": s.Kind, "cli": orEmpty(s.Cli), "conv": orEmpty(s.Conv), "meth": orEmpty(s.Meth), "sib": orEmpty(s.Sib),
			"outcome": "ok", "why": "", "stage": r.Stage, "names": []string{}, "effMeth": map[string]any{}, "effSib": map[string]any{}}
		switch {
		case r.Panic != nil:
			rec["outcome"], rec["why"] = "panic", hx.PanicClass(fmt.Sprint(r.Panic))
			nPanic++
		case r.Err != nil:
			rec["outcome"] = "error"
			msg := r.Err.Error()
			names := []string{}
			if strings.Contains(msg, "command line (-g, -global)") {
				names = append(names, "cli")
			}
			if r.ConvLocation != "" && strings.Contains(msg, r.ConvLocation) {
				names = append(names, "conv")
			}
			for _, m := range []string{"Conv", "Sib"} {
				if loc := r.MethodLocations[m]; loc != "" && strings.Contains(msg, loc) {
					names = append(names, "meth")
					break
				}
			}
			rec["names"] = names
			rec["diag"] = firstLine(msg)
			nErr++
		default:
			nOK++
		}
		if r.Err == nil && r.Panic == nil || r.Stage == "generate" {
			if r.Conv != nil {
				for _, m := range r.Conv.Methods {
					if m.Definition == nil {
						continue
					}
					switch m.Name {
					case "Conv":
						rec["effMeth"] = commonRec(m.Common)
					case "Sib":
						rec["effSib"] = commonRec(m.Common)
					}
				}
			}
		}
		// a failure in the generate stage means every line was accepted by the parser
		if rec["outcome"] == "error" && r.Stage == "generate" {
			rec["outcome"] = "ok"
			rec["genfail"] = true
		}
		obs.Write(rec)
	}
	js, _ := json.Marshal(map[string]any{"scenarios": len(scens), "ok": nOK, "error": nErr, "panic": nPanic, "gen_s": gen.Seconds()})
	fmt.Println("HARNESS-SUMMARY " + string(js))
}

func orEmpty(l []line) []line {
	if l == nil {
		return []line{}
	}
	return l
}

func firstLine(s string) string {
	if i := strings.IndexByte(s, '\n'); i >= 0 {
		return s[:i]
	}
	return s
}

func wrapPkg(name string) string {
	return "package " + name + "\n\nfunc Wrap(err error, elems ...interface{}) error { return err }\nfunc Field(s string) interface{} { return s }\nfunc Index(i int) interface{} { return i }\nfunc Key(k interface{}) interface{} { return k }\n"
}
