package main

import (
	"encoding/json"
	"flag"
	"fmt"
	"path/filepath"
	"strings"
	"time"

	"verifharness/hx"
)

type witScen struct {
	Kind string `json:"kind"`
	PC   string `json:"pc"`
	P1   string `json:"p1"`
	P2   string `json:"p2"`
}

func wrapLine(pl, indent string) string {
	switch pl {
	case "yes":
		return indent + "// goverter:wrapErrors yes\n"
	case "no":
		return indent + "// goverter:wrapErrors no\n"
	}
	return ""
}

func skipLine(pl, indent string) string {
	switch pl {
	case "yes":
		return indent + "// goverter:skipCopySameType yes\n"
	case "no":
		return indent + "// goverter:skipCopySameType no\n"
	}
	return ""
}

func enumLine(pl, indent string) string {
	switch pl {
	case "yes":
		return indent + "// goverter:enum yes\n"
	case "no":
		return indent + "// goverter:enum no\n"
	}
	return ""
}

func zeroLine(pl, indent string) string {
	switch pl {
	case "yes":
		return indent + "// goverter:useZeroValueOnPointerInconsistency yes\n"
	case "no":
		return indent + "// goverter:useZeroValueOnPointerInconsistency no\n"
	}
	return ""
}

func regexLine(pl, indent string) string {
	switch pl {
	case "match":
		return indent + "// goverter:arg:context:regex ^kx$\n"
	case "nomatch":
		return indent + "// goverter:arg:context:regex ^zz$\n"
	}
	return ""
}

// chainOf extracts the field names of "error setting field X: " prefixes.
func chainOf(msg string) []string {
	out := []string{}
	for strings.HasPrefix(msg, "error setting field ") {
		rest := strings.TrimPrefix(msg, "error setting field ")
		i := strings.Index(rest, ": ")
		if i < 0 {
			break
		}
		out = append(out, rest[:i])
		msg = rest[i+2:]
	}
	return out
}

func aliasOf(alias map[int][]bool, i int) []bool {
	out := []bool{false, false, false, false}
	for m := 0; m < 2; m++ {
		if a, ok := alias[2*i+m]; ok && len(a) == 2 {
			out[2*m], out[2*m+1] = a[0], a[1]
		}
	}
	return out
}

// cmdWitness: wrapErrors effect witnesses (C12 on generated helper methods, C18 fmt import).
func cmdWitness(args []string) {
	fs := flag.NewFlagSet("witness", flag.ExitOnError)
	scenFile := fs.String("scen", "", "")
	obsFile := fs.String("obs", "", "")
	work := fs.String("work", "", "")
	fs.Parse(args)
	var scens []witScen
	hx.Must(hx.ReadNDJSON(*scenFile, func(i int, b []byte) error {
		var s witScen
		if err := json.Unmarshal(b, &s); err != nil {
			return err
		}
		scens = append(scens, s)
		return nil
	}))
	b := hx.NewBatch(*work)
	b.WriteGoMod()
	var src strings.Builder
	src.WriteString("package p\n\nimport (\n\t\"errors\"\n\n\t\"" + b.Mod + "/ea\"\n\t\"" + b.Mod + "/eb\"\n)\n\ntype Inner struct{ V string }\ntype Inner2 struct{ V int }\ntype S1 struct{ I Inner }\ntype T1 struct{ I Inner2 }\ntype S2 struct{ J Inner }\ntype T2 struct{ J Inner2 }\ntype S3 struct{ K string }\ntype T3 struct{ K int }\ntype SE1 struct{ C ea.Col }\ntype TE1 struct{ C eb.Col }\ntype SE2 struct{ C ea.Col }\ntype TE2 struct{ C eb.Col }\ntype Wrap struct{ P *int }\ntype Wrap2 struct{ P int }\ntype SZ1 struct {\n\tQ *int\n\tW Wrap\n}\ntype TZ1 struct {\n\tQ int\n\tW Wrap2\n}\ntype SZ2 struct {\n\tQ *int\n\tW Wrap\n}\ntype TZ2 struct {\n\tQ int\n\tW Wrap2\n}\ntype In6 struct{ L []int }\ntype Cu struct{ Tags []int }\ntype CuD struct{ Tags []int }\ntype S6 struct {\n\tI In6\n\tC Cu\n}\ntype T6 struct {\n\tI In6\n\tC CuD\n}\ntype S7 struct {\n\tI In6\n\tC Cu\n}\ntype T7 struct {\n\tI In6\n\tC CuD\n}\ntype In8 struct {\n\tA int\n\tB int\n}\ntype S8 struct{ I In8 }\ntype T8 struct{ I In8 }\ntype S4 struct{ V string }\ntype T4 struct{ V string }\ntype S5 struct{ V string }\ntype T5 struct{ V string }\n\nfunc Fn(v string, kx int) string { return v }\n\nfunc Atoi(s string) (int, error) { return 0, errors.New(\"boom\") }\n")
	for i, s := range scens {
		if s.Kind == "zeroflag" {
			fmt.Fprintf(&src, "\n// goverter:converter\n%s// goverter:output:file ../gen/c%d.go\n// goverter:output:package %s/gen\ntype C%d interface {\n%s\tM1(source SZ1) TZ1\n%s\tM2(source SZ2) TZ2\n}\n",
				zeroLine(s.PC, ""), i, b.Mod, i, zeroLine(s.P1, "\t"), zeroLine(s.P2, "\t"))
			continue
		}
		if s.Kind == "emptypath" {
			fmt.Fprintf(&src, "\n// goverter:converter\n// goverter:extend Atoi\n// goverter:wrapErrorsUsing %s/wx\n// goverter:output:file ../gen/c%d.go\n// goverter:output:package %s/gen\ntype C%d interface {\n\tM1(source *string) (*int, error)\n}\n", b.Mod, i, b.Mod, i)
			continue
		}
		if s.Kind == "enumoff" {
			fmt.Fprintf(&src, "\n// goverter:converter\n// goverter:enum:unknown @ignore\n%s// goverter:output:file ../gen/c%d.go\n// goverter:output:package %s/gen\ntype C%d interface {\n%s\tM1(source SE1) TE1\n%s\tM2(source SE2) TE2\n}\n",
				enumLine(s.PC, ""), i, b.Mod, i, enumLine(s.P1, "\t"), enumLine(s.P2, "\t"))
			continue
		}
		if s.Kind == "skipdecl" {
			fmt.Fprintf(&src, "\n// goverter:converter\n// goverter:output:file ../gen/c%d.go\n// goverter:output:package %s/gen\ntype C%d interface {\n%s\tM1(source S8) T8\n\t// goverter:ignore B\n\tM2(source In8) In8\n}\n",
				i, b.Mod, i, skipLine(s.P1, "\t"))
			continue
		}
		if s.Kind == "skipcopy" {
			fmt.Fprintf(&src, "\n// goverter:converter\n%s// goverter:output:file ../gen/c%d.go\n// goverter:output:package %s/gen\ntype C%d interface {\n%s\tM1(source S6) T6\n%s\tM2(source S7) T7\n}\n",
				skipLine(s.PC, ""), i, b.Mod, i, skipLine(s.P1, "\t"), skipLine(s.P2, "\t"))
			continue
		}
		if s.Kind == "ctxregexfn" {
			// function format: package-level functions, so the names carry the scenario number; the methods declare kx as a context
			// themselves, so only the classification of Fn's parameter depends on the pattern
			fmt.Fprintf(&src, "\n// goverter:converter\n// goverter:output:format function\n%s// goverter:output:file ../gen/c%d.go\n// goverter:output:package %s/gen\ntype C%d interface {\n%s\t// goverter:context kx\n\t// goverter:map V | Fn\n\tM1x%d(source S4, kx int) T4\n%s\t// goverter:context kx\n\t// goverter:map V | Fn\n\tM2x%d(source S5, kx int) T5\n}\n",
				regexLine(s.PC, ""), i, b.Mod, i, regexLine(s.P1, "\t"), i, regexLine(s.P2, "\t"), i)
			continue
		}
		if s.Kind == "ctxregex" {
			fmt.Fprintf(&src, "\n// goverter:converter\n%s// goverter:output:file ../gen/c%d.go\n// goverter:output:package %s/gen\ntype C%d interface {\n%s\t// goverter:map V | Fn\n\tM1(source S4, kx int) T4\n%s\t// goverter:map V | Fn\n\tM2(source S5, kx int) T5\n}\n",
				regexLine(s.PC, ""), i, b.Mod, i, regexLine(s.P1, "\t"), regexLine(s.P2, "\t"))
			continue
		}
		if s.Kind == "direct" {
			fmt.Fprintf(&src, "\n// goverter:converter\n// goverter:extend Atoi\n%s// goverter:output:file ../gen/c%d.go\n// goverter:output:package %s/gen\ntype C%d interface {\n%s\tM1(source S3) (T3, error)\n}\n",
				wrapLine(s.PC, ""), i, b.Mod, i, wrapLine(s.P1, "\t"))
			continue
		}
		fmt.Fprintf(&src, "\n// goverter:converter\n// goverter:extend Atoi\n%s// goverter:output:file ../gen/c%d.go\n// goverter:output:package %s/gen\ntype C%d interface {\n%s\tM1(source S1) (T1, error)\n%s\tM2(source S2) (T2, error)\n}\n",
			wrapLine(s.PC, ""), i, b.Mod, i, wrapLine(s.P1, "\t"), wrapLine(s.P2, "\t"))
	}
	hx.WriteTree(*work, map[string]string{"p/in.go": src.String(),
		"wx/wx.go": wxSource,
		"ea/e.go": "package ea\n\ntype Col int\n\nconst (\n\tRed   Col = 1\n\tGreen Col = 2\n)\n",
		"eb/e.go": "package eb\n\ntype Col int\n\nconst (\n\tGreen Col = 1\n\tRed   Col = 2\n)\n"})
	t0 := time.Now()
	outs, err := hx.GenerateEach(hx.GenConfig(*work, []string{"./p"}, nil))
	hx.Must(err)
	b.Timing["gen"] = time.Since(t0)
	drvScen := filepath.Join(*work, "drv.ndjson")
	w, err := hx.NewNDWriter(drvScen)
	hx.Must(err)
	inner := stv(map[string]any{"k": "b", "tok": "a"})
	for i, o := range outs {
		for m := 1; m <= 2; m++ {
			if o.Gen == "ok" && scens[i].Kind == "emptypath" {
				if m == 1 {
					b.WriteOutputs(i, o.Files)
					b.OK[2*i] = true
					b.Reg[2*i] = fmt.Sprintf("reflect.ValueOf((&gen.C%dImpl{}).M1)", i)
					w.Write(map[string]any{"ins": []any{}, "lit": true, "calls": []any{map[string]any{"args": []any{ptrv(map[string]any{"k": "b", "tok": "#x"})}, "dump": []int{}}}})
				} else {
					w.Write(map[string]any{"ins": []any{}})
				}
			} else if o.Gen == "ok" && scens[i].Kind == "enumoff" {
				if m == 1 {
					b.WriteOutputs(i, o.Files)
				}
				b.OK[2*i+m-1] = true
				b.Reg[2*i+m-1] = fmt.Sprintf("reflect.ValueOf((&gen.C%dImpl{}).M%d)", i, m)
				w.Write(map[string]any{"ins": []any{}, "lit": true, "calls": []any{map[string]any{"args": []any{stv(map[string]any{"k": "b", "tok": "#1"})}, "dump": []int{}}}})
			} else if o.Gen == "ok" && scens[i].Kind == "skipdecl" {
				if m == 1 {
					b.WriteOutputs(i, o.Files)
					b.OK[2*i] = true
					b.Reg[2*i] = fmt.Sprintf("reflect.ValueOf((&gen.C%dImpl{}).M1)", i)
					w.Write(map[string]any{"ins": []any{}, "lit": true, "calls": []any{map[string]any{"args": []any{stv(stv(lit(5), lit(6)))}, "dump": []int{}}}})
				} else {
					w.Write(map[string]any{"ins": []any{}})
				}
			} else if o.Gen == "ok" && scens[i].Kind == "skipcopy" {
				if m == 1 {
					b.WriteOutputs(i, o.Files)
				}
				b.OK[2*i+m-1] = true
				b.Reg[2*i+m-1] = fmt.Sprintf("reflect.ValueOf((&gen.C%dImpl{}).M%d)", i, m)
				sl := func(n int) any { return map[string]any{"k": "s", "a": "i", "es": []any{map[string]any{"k": "b", "tok": fmt.Sprintf("#%d", n)}}} }
				arg := stv(stv(sl(1)), stv(sl(2)))
				w.Write(map[string]any{"ins": []any{}, "calls": []any{map[string]any{"args": []any{arg}, "dump": []int{}}}})
			} else if o.Gen == "ok" && (scens[i].Kind == "ctxregex" || scens[i].Kind == "ctxregexfn" || scens[i].Kind == "zeroflag") {
				if m == 1 {
					b.WriteOutputs(i, o.Files) // compiled with the rest of the gen package; not executed
				}
				w.Write(map[string]any{"ins": []any{}})
			} else if o.Gen == "ok" && !(m == 2 && scens[i].Kind == "direct") {
				if m == 1 {
					b.WriteOutputs(i, o.Files)
				}
				b.OK[2*i+m-1] = true
				b.Reg[2*i+m-1] = fmt.Sprintf("reflect.ValueOf((&gen.C%dImpl{}).M%d)", i, m)
				var arg any = stv(inner)
				if scens[i].Kind == "direct" {
					arg = inner
				}
				w.Write(map[string]any{"ins": []any{}, "calls": []any{map[string]any{"args": []any{arg}, "dump": []int{}}}})
			} else {
				w.Write(map[string]any{"ins": []any{}})
			}
		}
	}
	w.Close()
	// compile attribution is per generated file c<i>.go; registry ids are 2i, 2i+1
	hx.Must(b.BuildDriver(nil, false))
	recs, _, err := b.RunDriver(drvScen, "seq")
	hx.Must(err)
	msg := map[int]string{}
	alias := map[int][]bool{}
	byName, seenNum := map[int]bool{}, map[int]bool{}
	declB := map[int]int{}
	for _, r := range recs {
		id := int(r["id"].(float64))
		if id%2 == 0 && id/2 < len(scens) && scens[id/2].Kind == "skipdecl" {
			declB[id/2] = -1
			if outs, ok := r["outs"].([]any); ok && len(outs) > 0 {
				if st, ok := outs[0].(map[string]any); ok && st["k"] == "st" {
					if in, ok := st["fs"].([]any)[0].(map[string]any); ok && in["k"] == "st" {
						declB[id/2] = litOf(in["fs"].([]any)[1])
					}
				}
			}
			continue
		}
		msg[id], _ = r["err"].(string)
		// enumoff witnesses: the number Red (1) arrives as
		if outs, ok := r["outs"].([]any); ok && len(outs) > 0 {
			if st, ok := outs[0].(map[string]any); ok && st["k"] == "st" {
				if fs, ok := st["fs"].([]any); ok && len(fs) == 1 {
					if tok, _ := fs[0].(map[string]any)["tok"].(string); tok != "" {
						byName[id] = tok == "#2"
						seenNum[id] = true
					}
				}
			}
		}
		// skipcopy witnesses: does the result share the slices of the source? (address label of the input allocation)
		if outs, ok := r["outs"].([]any); ok && len(outs) > 0 {
			if st, ok := outs[0].(map[string]any); ok && st["k"] == "st" {
				if fs, ok := st["fs"].([]any); ok && len(fs) == 2 {
					lab := func(f any) bool {
						inner, _ := f.(map[string]any)["fs"].([]any)
						if len(inner) != 1 {
							return false
						}
						a, _ := inner[0].(map[string]any)["a"].(string)
						return a != "" && a != "o"
					}
					alias[id] = []bool{lab(fs[0]), lab(fs[1])}
				}
			}
		}
	}
	obs, err := hx.NewNDWriter(*obsFile)
	hx.Must(err)
	defer obs.Close()
	for i, o := range outs {
		why := ""
		if o.Gen == "panic" {
			why = hx.PanicClass(o.Why)
		}
		_, badc := b.BadComp[i]
		imps, decls := hx.DescribeFiles(o.Files, map[string]string{b.Mod + "/p": "user", b.Mod + "/wx": "wrap-pkg"})
		if scens[i].Kind == "direct" {
			msg[2*i+1] = "" // M2 of a direct program is only there to keep the registry shape; it is not judged
		}
		obs.Write(map[string]any{"id": i, "kind": scens[i].Kind, "pc": scens[i].PC, "p1": scens[i].P1, "p2": scens[i].P2, "gen": o.Gen, "why": why, "compiles": !badc,
			"alias": aliasOf(alias, i), "byname": []bool{byName[2*i], byName[2*i+1]}, "numseen": []bool{seenNum[2*i], seenNum[2*i+1]}, "chain1": chainOf(msg[2*i]), "chain2": chainOf(msg[2*i+1]), "msg1": msg[2*i], "declB": declB[i], "imports": imps, "decls": decls, "diag": firstLine(o.Why)})
	}
	js, _ := json.Marshal(map[string]any{"scenarios": len(scens), "executions": len(recs), "gen_s": b.Timing["gen"].Seconds(), "build_s": b.Timing["build"].Seconds()})
	fmt.Println("HARNESS-SUMMARY " + string(js))
}
