module verifharness

go 1.22.0

require (
	github.com/jmattheis/goverter v0.0.0
	gopkg.in/yaml.v3 v3.0.1
)

require (
	github.com/dave/jennifer v1.6.0 // indirect
	golang.org/x/mod v0.21.0 // indirect
	golang.org/x/sync v0.8.0 // indirect
	golang.org/x/tools v0.25.0 // indirect
)

replace github.com/jmattheis/goverter => /repo
