package hx

import (
	"bytes"
	"encoding/json"
	"fmt"
	"os"
	"os/exec"
	"path/filepath"
	"regexp"
	"sort"
	"strconv"
	"strings"
	"time"
)

// Batch is one scratch module holding many single-purpose converters C<i> in package p, each generated
// into its own file gen/c<i>.go of package <mod>/gen, plus a reflect driver in package drv.
type Batch struct {
	Work    string
	Mod     string
	N       int
	OK      map[int]bool   // generated and (so far) believed to compile
	BadComp map[int]string // id -> first compile error
	Reg     map[int]string // id -> Go expression of the callable (reflect.ValueOf(...))
	API     map[int]string // id -> body of an assertion file (package api<id>) checking the declared API
	BadAPI  map[int]string // id -> first compile error of the assertion
	Timing  map[string]time.Duration
}

func NewBatch(work string) *Batch {
	return &Batch{Work: work, Mod: "v.test/b", OK: map[int]bool{}, BadComp: map[int]string{}, Reg: map[int]string{}, API: map[int]string{}, BadAPI: map[int]string{}, Timing: map[string]time.Duration{}}
}

func (b *Batch) WriteGoMod() {
	Must(os.MkdirAll(b.Work, 0o755))
	Must(os.WriteFile(filepath.Join(b.Work, "go.mod"), []byte("module "+b.Mod+"\ngo 1.18\n"), 0o644))
}

// WriteOutputs stores the files of successfully generated converters.
func (b *Batch) WriteOutputs(id int, files map[string][]byte) {
	for p, c := range files {
		Must(os.MkdirAll(filepath.Dir(p), 0o755))
		Must(os.WriteFile(p, c, 0o644))
	}
	b.OK[id] = true
}

var apiErr = regexp.MustCompile(`(?m)^(?:\./)?api/a(\d+)\.go:\d+:\d+: (.*)$`)
var compErr = regexp.MustCompile(`(?m)^(?:\./)?(?:gen|sp)/c(\d+)\.go:\d+:\d+: (.*)$`)

// BuildDriver writes the registry and the driver and builds it; generated files that do not compile are
// attributed to their scenario (one file per converter), removed, and the build is repeated.
func (b *Batch) BuildDriver(extraImports []string, race bool) error {
	drv := filepath.Join(b.Work, "drv")
	Must(os.MkdirAll(drv, 0o755))
	Must(os.WriteFile(filepath.Join(drv, "main.go"), []byte(DriverSource), 0o644))
	for round := 0; round < 12; round++ {
		var reg strings.Builder
		reg.WriteString("//go:build !goverter\n\npackage main\n\nimport (\n\t\"reflect\"\n\tgen \"" + b.Mod + "/gen\"\n")
		for _, imp := range extraImports {
			reg.WriteString("\t" + imp + "\n")
		}
		// API assertions: one file per scenario in package api (compile errors are attributed by file name)
		apiDir := filepath.Join(b.Work, "api")
		nAPI := 0
		for id, body := range b.API {
			f := filepath.Join(apiDir, fmt.Sprintf("a%d.go", id))
			if b.OK[id] && b.BadAPI[id] == "" {
				Must(os.MkdirAll(apiDir, 0o755))
				Must(os.WriteFile(f, []byte("//go:build !goverter\n\npackage api\n\n"+body), 0o644))
				nAPI++
			} else {
				os.Remove(f)
			}
		}
		if nAPI > 0 {
			reg.WriteString(fmt.Sprintf("\t_ \"%s/api\"\n", b.Mod))
		}
		reg.WriteString(")\n\nvar _ = gen.Keep\n\nvar setFaults = map[int]func(bool){}\n\nvar registry = map[int]reflect.Value{}\n")
		ids := make([]int, 0, len(b.Reg))
		for id := range b.Reg {
			if b.OK[id] {
				ids = append(ids, id)
			}
		}
		sort.Ints(ids)
		// filled by init functions of bounded size: one huge composite literal makes the compiler's liveness analysis explode
		// (go1.26, -race: "internal compiler error: NewBulk too big" at ~130k entries)
		for k, id := range ids {
			if k%500 == 0 {
				if k > 0 {
					reg.WriteString("}\n")
				}
				reg.WriteString("\nfunc init() {\n")
			}
			fmt.Fprintf(&reg, "\tregistry[%d] = %s\n", id, b.Reg[id])
		}
		if len(ids) > 0 {
			reg.WriteString("}\n")
		}
		Must(os.WriteFile(filepath.Join(drv, "registry.go"), []byte(reg.String()), 0o644))
		Must(os.MkdirAll(filepath.Join(b.Work, "gen"), 0o755))
		Must(os.WriteFile(filepath.Join(b.Work, "gen", "keep.go"), []byte("package gen\n\n// Keep makes the package non-empty.\nconst Keep = 0\n"), 0o644))
		args := []string{"-gcflags=all=-e", "-o", "drv.bin"}
		if race {
			args = []string{"-race", "-gcflags=all=-e", "-o", "drv.race.bin"}
		}
		out, err, d := GoBuild(b.Work, append(args, "./drv")...)
		b.Timing["build"] += d
		if err == nil {
			return nil
		}
		ms := compErr.FindAllStringSubmatch(out, -1)
		as := apiErr.FindAllStringSubmatch(out, -1)
		for _, m := range as {
			id, _ := strconv.Atoi(m[1])
			if b.BadAPI[id] == "" {
				b.BadAPI[id] = m[2]
			}
		}
		if len(ms) == 0 && len(as) > 0 {
			continue
		}
		if len(ms) == 0 {
			return fmt.Errorf("driver build failed (not attributable to a generated file):\n%s", out)
		}
		for _, m := range ms {
			id, _ := strconv.Atoi(m[1])
			if _, seen := b.BadComp[id]; !seen {
				b.BadComp[id] = m[2]
			}
			delete(b.OK, id)
			os.Remove(filepath.Join(b.Work, "gen", fmt.Sprintf("c%d.go", id)))
			os.Remove(filepath.Join(b.Work, "sp", fmt.Sprintf("c%d.go", id)))
		}
	}
	return fmt.Errorf("driver build did not converge")
}

// RunDriver executes the driver over the scenario file and returns its records.
func (b *Batch) RunDriver(scenFile string, mode string) ([]map[string]any, string, error) {
	t0 := time.Now()
	bin := "drv.bin"
	if mode == "race" {
		bin = "drv.race.bin"
	}
	cmd := exec.Command(filepath.Join(b.Work, bin), scenFile, mode)
	var stdout, stderr bytes.Buffer
	cmd.Stdout = &stdout
	cmd.Stderr = &stderr
	cmd.Env = append(os.Environ(), "GORACE=halt_on_error=0")
	err := cmd.Run()
	b.Timing["exec"] += time.Since(t0)
	if err != nil && mode != "race" {
		return nil, stderr.String(), fmt.Errorf("driver failed: %v\n%s", err, tail(stderr.String(), 2000))
	}
	var recs []map[string]any
	dec := json.NewDecoder(&stdout)
	for dec.More() {
		var r map[string]any
		if err := dec.Decode(&r); err != nil {
			return nil, stderr.String(), err
		}
		recs = append(recs, r)
	}
	return recs, stderr.String(), nil
}

func tail(s string, n int) string {
	if len(s) > n {
		return s[len(s)-n:]
	}
	return s
}

// RaceScenarios extracts the (scenario, input) pairs after whose marker the race detector reported.
func RaceScenarios(stderr string) map[[2]int]bool {
	res := map[[2]int]bool{}
	cur := [2]int{-1, -1}
	for _, line := range strings.Split(stderr, "\n") {
		if strings.HasPrefix(line, "##SCEN ") {
			f := strings.Fields(line)
			a, _ := strconv.Atoi(f[1])
			c, _ := strconv.Atoi(f[2])
			cur = [2]int{a, c}
		} else if strings.Contains(line, "WARNING: DATA RACE") {
			res[cur] = true
		}
	}
	return res
}
