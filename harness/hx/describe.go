package hx

import (
	"go/ast"
	"go/parser"
	"go/token"
	"sort"
	"strconv"
)

// DescribeFiles parses emitted files: import paths (mapped through roles where known) and top-level declaration kinds.
func DescribeFiles(files map[string][]byte, roles map[string]string) (imports []string, decls []string) {
	imports, decls = []string{}, []string{}
	seen := map[string]bool{}
	for name, content := range files {
		f, err := parser.ParseFile(token.NewFileSet(), name, content, parser.ImportsOnly|parser.ParseComments)
		if err == nil {
			for _, im := range f.Imports {
				p, _ := strconv.Unquote(im.Path.Value)
				if r, ok := roles[p]; ok {
					p = r
				}
				if !seen[p] {
					seen[p] = true
					imports = append(imports, p)
				}
			}
		}
		f, err = parser.ParseFile(token.NewFileSet(), name, content, 0)
		if err != nil {
			decls = append(decls, "unparsable")
			continue
		}
		for _, d := range f.Decls {
			switch x := d.(type) {
			case *ast.FuncDecl:
				switch {
				case x.Recv != nil:
					decls = append(decls, "method")
				case x.Name.Name == "init":
					decls = append(decls, "init")
				default:
					decls = append(decls, "func")
				}
			case *ast.GenDecl:
				switch x.Tok {
				case token.IMPORT:
				case token.TYPE:
					for _, s := range x.Specs {
						if _, ok := s.(*ast.TypeSpec).Type.(*ast.StructType); ok {
							decls = append(decls, "struct")
						} else {
							decls = append(decls, "type")
						}
					}
				case token.VAR:
					decls = append(decls, "var")
				case token.CONST:
					decls = append(decls, "const")
				}
			}
		}
	}
	sort.Strings(imports)
	sort.Strings(decls)
	return imports, decls
}
