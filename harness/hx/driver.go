package hx

import (
	_ "embed"
)

//go:embed assets/driver.go.txt
var DriverSource string
