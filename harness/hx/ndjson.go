package hx

import (
	"bufio"
	"encoding/json"
	"os"
)

// ReadNDJSON calls fn for every line of the file.
func ReadNDJSON(path string, fn func(i int, line []byte) error) error {
	f, err := os.Open(path)
	if err != nil {
		return err
	}
	defer f.Close()
	sc := bufio.NewScanner(f)
	sc.Buffer(make([]byte, 1<<20), 1<<28)
	i := 0
	for sc.Scan() {
		if len(sc.Bytes()) == 0 {
			continue
		}
		if err := fn(i, sc.Bytes()); err != nil {
			return err
		}
		i++
	}
	return sc.Err()
}

// NDWriter writes one JSON value per line.
type NDWriter struct {
	f *os.File
	w *bufio.Writer
	e *json.Encoder
	N int
}

func NewNDWriter(path string) (*NDWriter, error) {
	f, err := os.Create(path)
	if err != nil {
		return nil, err
	}
	w := bufio.NewWriterSize(f, 1<<20)
	e := json.NewEncoder(w)
	e.SetEscapeHTML(false)
	return &NDWriter{f: f, w: w, e: e}, nil
}

func (n *NDWriter) Write(v any) {
	if err := n.e.Encode(v); err != nil {
		panic(err)
	}
	n.N++
}

func (n *NDWriter) Close() {
	n.w.Flush()
	n.f.Close()
}
