package hx

import (
	"fmt"
	"os"
	"os/exec"
	"path/filepath"
	"strings"
	"time"

	"github.com/jmattheis/goverter"
	"github.com/jmattheis/goverter/config"
	"github.com/jmattheis/goverter/enum"
	"github.com/jmattheis/goverter/veriftrace"
)

func Must(err error) {
	if err != nil {
		panic(err)
	}
}

// WriteTree writes files (relative path -> content) below dir.
func WriteTree(dir string, files map[string]string) {
	for name, content := range files {
		p := filepath.Join(dir, name)
		Must(os.MkdirAll(filepath.Dir(p), 0o755))
		Must(os.WriteFile(p, []byte(content), 0o644))
	}
}

// Outcome of generating one converter.
type Outcome struct {
	Name  string
	File  string // file declaring the converter
	Gen   string // ok | fail | panic
	Why   string // panic value or diagnostic text
	Files map[string][]byte
}

// GenConfig builds the configuration the CLI would build.
func GenConfig(work string, patterns []string, global []string) *goverter.GenerateConfig {
	return &goverter.GenerateConfig{
		PackagePatterns: patterns, WorkingDir: work, BuildTags: "goverter", OutputBuildConstraint: "!goverter",
		EnumTransformers: map[string]enum.Transformer{}, Global: config.RawLines{Location: "command line (-g, -global)", Lines: global},
	}
}

// GenerateEach runs the real generator once per converter (packages are loaded once).
func GenerateEach(cfg *goverter.GenerateConfig) ([]Outcome, error) {
	res, err := goverter.GenerateEachVerif(cfg)
	if err != nil {
		return nil, err
	}
	out := make([]Outcome, len(res))
	for i, r := range res {
		o := Outcome{Name: r.Name, File: r.File, Gen: "ok", Files: r.Files}
		if r.Panic != nil {
			o.Gen, o.Why = "panic", fmt.Sprint(r.Panic)
		} else if r.Err != nil {
			o.Gen, o.Why = "fail", r.Err.Error()
		}
		out[i] = o
	}
	return out, nil
}

// Trace captures the events emitted by the veriftrace hooks while fn runs.
func Trace(fn func()) []map[string]any {
	var evs []map[string]any
	veriftrace.Reset()
	veriftrace.Sink = func(ev map[string]any) { evs = append(evs, ev) }
	defer func() { veriftrace.Sink = nil }()
	fn()
	return evs
}

// GoEnv is the environment of every go command the harness starts (offline, module mode).
func GoEnv() []string {
	env := os.Environ()
	return append(env, "GOFLAGS=-mod=mod", "GOPROXY=off", "GOSUMDB=off", "GOTOOLCHAIN=local", "GO111MODULE=on")
}

// GoBuild runs `go build` in dir and returns combined output.
func GoBuild(dir string, args ...string) (string, error, time.Duration) {
	t0 := time.Now()
	cmd := exec.Command("go", append([]string{"build"}, args...)...)
	cmd.Dir = dir
	cmd.Env = GoEnv()
	b, err := cmd.CombinedOutput()
	return string(b), err, time.Since(t0)
}

// PanicClass shortens a panic value to a stable class for fingerprints.
func PanicClass(s string) string {
	s = strings.TrimSpace(s)
	if i := strings.IndexByte(s, '\n'); i >= 0 {
		s = s[:i]
	}
	for _, p := range []string{"unsupported type", "runtime error: invalid memory address", "strings: negative Repeat count", "unknown types.Type", "hopefully unreachable", "multi source", "unreachable"} {
		if strings.Contains(s, p) {
			return p
		}
	}
	if len(s) > 60 {
		s = s[:60]
	}
	return s
}
