// Package hx is the shared library of the conformance harness: abstract type terms, scratch modules,
// in-process runs of the real goverter (built from /repo with -tags verif), trace capture, the driver
// for executing generated code, NDJSON helpers.
package hx

import (
	"fmt"
	"sort"
	"strings"
)

// Term is an abstract Go type (spec/Types.tla). JSON keys are case-insensitively distinct.
type Term struct {
	K   string  `json:"k"`
	B   string  `json:"b,omitempty"`
	ID  string  `json:"id,omitempty"`
	U   *Term   `json:"u,omitempty"`
	E   *Term   `json:"e,omitempty"`
	Key *Term   `json:"key,omitempty"`
	Fs  []Field `json:"fs"`
}

type Field struct {
	N   string `json:"n"`
	T   *Term  `json:"t"`
	Tag string `json:"tag,omitempty"`
	Emb bool   `json:"emb,omitempty"`
}

// Decls collects the declarations a package needs for the named types used by its terms.
type Decls struct {
	Types   map[string]string
	Unsafe  bool
	Package string // qualifier for named types ("" = same package)
}

func NewDecls() *Decls { return &Decls{Types: map[string]string{}} }

// GoType renders a term as Go source and records the named types it needs.
func (d *Decls) GoType(t *Term) string {
	switch t.K {
	case "basic":
		if t.B == "unsafe.Pointer" {
			d.Unsafe = true
		}
		return t.B
	case "named":
		under := d.GoType(t.U)
		decl := "type " + t.ID + " " + under
		if prev, ok := d.Types[t.ID]; ok && prev != decl {
			panic("named type " + t.ID + " declared twice with different underlying types")
		}
		d.Types[t.ID] = decl
		if d.Package != "" {
			return d.Package + "." + t.ID
		}
		return t.ID
	case "ptr":
		return "*" + d.GoType(t.E)
	case "slice":
		return "[]" + d.GoType(t.E)
	case "array":
		return "[2]" + d.GoType(t.E)
	case "map":
		return "map[" + d.GoType(t.Key) + "]" + d.GoType(t.E)
	case "struct":
		var fs []string
		for _, f := range t.Fs {
			decl := f.N + " " + d.GoType(f.T)
			if f.Emb {
				decl = d.GoType(f.T)
			}
			if f.Tag != "" {
				decl += " `" + f.Tag + "`"
			}
			fs = append(fs, decl)
		}
		if len(fs) == 0 {
			return "struct{}"
		}
		return "struct{ " + strings.Join(fs, "; ") + " }"
	case "iface":
		switch t.ID {
		case "any":
			return "interface{}"
		case "error":
			return "error"
		default:
			d.Types[t.ID] = "type " + t.ID + " interface{ M() }"
			if d.Package != "" {
				return d.Package + "." + t.ID
			}
			return t.ID
		}
	case "func":
		return "func(int) string"
	case "chan":
		return "chan int"
	}
	panic(fmt.Sprint("bad term kind ", t.K))
}

// Source renders the collected declarations in a stable order.
func (d *Decls) Source() string {
	names := make([]string, 0, len(d.Types))
	for n := range d.Types {
		names = append(names, n)
	}
	sort.Strings(names)
	var b strings.Builder
	for _, n := range names {
		b.WriteString(d.Types[n] + "\n")
	}
	return b.String()
}
