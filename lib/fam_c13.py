"""C13: goverter never panics or hangs -- judged on the observations of several families."""
import fam_rules
import fam_text
from vlib import read_ndjson


def check_C13(run):
    ev = 0
    kinds = set()
    samples = []
    summ, scen, obs = fam_rules.pipeline(run, "C13")
    if obs:
        for r in read_ndjson(obs):
            if not r["exec"]:
                ev += 1
                k = ("types", fam_rules.shape(r["s"]).split("(")[0], fam_rules.shape(r["t"]).split("(")[0], r["gen"], r.get("why", ""))
                if k not in kinds and len(samples) < 3:
                    samples.append({"family": "types", "s": fam_rules.shape(r["s"]), "t": fam_rules.shape(r["t"]), "generator": r["gen"], "why": r.get("why", "")})
                kinds.add(k)
    summ2, scen2, obs2 = fam_text.pipeline(run)
    if obs2:
        for r in read_ndjson(obs2):
            ev += 1
            k = ("directive", tuple(x["key"] for x in r["cli"] + r["conv"] + r["meth"] + r["sib"]), r["outcome"])
            if k not in kinds and len(samples) < 6 and r["outcome"] != "ok":
                samples.append({"family": "directive", "cli": r["cli"], "conv": r["conv"], "meth": r["meth"], "outcome": r["outcome"], "diag": r.get("diag", r.get("why"))})
            kinds.add(k)
    run.samples = samples
    run.assumptions = ["in-process generation per converter under recover(); a hang or an unrecoverable crash of the harness process is reported as an infrastructure error (exit 2) and has to be looked at by hand",
                       "the diagnostic 'names the offending declaration' when it contains the file:line of the converter or method, the converter's name, or 'command line' for -g settings"]
    return run.finish("(i) every single-method program over the pairs of the leaves goverter cannot convert by itself (uintptr, unsafe.Pointer, error, any, interface with method, func, chan, named pointer/slice/map/array) under 7 constructors; "
                      "(ii) every (level, key, value text) directive triple of 38 keys x 16 value texts x 3 levels plus all placement scenarios of the settings family; distinct = distinct (family, shape or keys, outcome)",
                      ev, len(kinds))


CHECKS = {"C13": check_C13}
