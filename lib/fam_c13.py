"""C13: goverter never panics or hangs -- judged on the observations of several families."""
import fam_rules
import fam_text
from vlib import read_ndjson


def check_C13(run):
    ev = 0
    kinds = set()
    samples = []
    summ, scen, obs = fam_rules.pipeline(run, "C13")
    if obs:
        for r in read_ndjson(obs):
            if not r["exec"]:
                ev += 1
                k = ("types", fam_rules.shape(r["s"]).split("(")[0], fam_rules.shape(r["t"]).split("(")[0], r["gen"], r.get("why", ""))
                if k not in kinds and len(samples) < 3:
                    samples.append({"family": "types", "s": fam_rules.shape(r["s"]), "t": fam_rules.shape(r["t"]), "generator": r["gen"], "why": r.get("why", "")})
                kinds.add(k)
    summ2, scen2, obs2 = fam_text.pipeline(run)
    if obs2:
        for r in read_ndjson(obs2):
            ev += 1
            k = ("directive", tuple(x["key"] for x in r["cli"] + r["conv"] + r["meth"] + r["sib"]), r["outcome"])
            if k not in kinds and len(samples) < 6 and r["outcome"] != "ok":
                samples.append({"family": "directive", "cli": r["cli"], "conv": r["conv"], "meth": r["meth"], "outcome": r["outcome"], "diag": r.get("diag", r.get("why"))})
            kinds.add(k)
    # (iii) corners of the type grammar as whole programs through the CLI, each under a deadline in its own process
    import os
    from vlib import Infra
    cli = run.build_cli()
    pscen = os.path.join(run.scratch, "pscen.ndjson")
    if run.replay:
        pscen = os.path.join(run.replay, "scen-run.ndjson")
    if not run.replay or os.path.exists(pscen):
        if not run.replay:
            out = run.tlc("Export_Shapes", "INIT Init\nNEXT Next\nCONSTANTS\n  ScenOut = \"%s\"\nCHECK_DEADLOCK FALSE\n" % pscen, workers=1, timeout=1200, role="export")
            if "exported" not in out:
                raise Infra("export failed:\n" + out[-3000:])
        pobs = os.path.join(run.scratch, "pobs.ndjson")
        run.harness(["run", "-scen", pscen, "-obs", pobs, "-work", os.path.join(run.scratch, "wp"), "-bin", cli], timeout=7200)
        run.fam = "run"
        run.scen_files["run"] = pscen
        run.validate_obs("Obs_Run", pobs, chunk=10 ** 9)
        for r in read_ndjson(pobs):
            ev += 1
            k = ("program", r["name"], r["exit"], r["panic"], r["timeout"])
            if k not in kinds and len(samples) < 8 and r["name"].startswith(("self-slice", "seen-two", "generic-rec")):
                samples.append({"family": "program", "name": r["name"], "exit": r["exit"], "panic": r["panic"], "timeout": r["timeout"], "diag": r.get("diag")})
            kinds.add(k)
    run.samples = samples
    run.assumptions = ["(i) and (ii) run in-process per converter under recover(): a hang or an unrecoverable crash there is an infrastructure error (exit 2); (iii) runs the CLI per program in its own process under a deadline, so hangs and stack overflows are observed as such",
                       "the diagnostic 'names the offending declaration' when it contains the file:line of the converter or method, the converter's name, or 'command line' for -g settings"]
    return run.finish("(i) every single-method program over the pairs of the leaves goverter cannot convert by itself (uintptr, unsafe.Pointer, error, any, interface with method, func, chan, named pointer/slice/map/array) under 7 constructors; "
                      "(ii) every (level, key, value text) directive triple of 38 keys x 16 value texts x 3 levels plus all placement scenarios of the settings family; "
                      "(iii) 417 whole programs produced by TLC as source text (self-referential and mutually recursive named types through 11 constructors x 4 uses x 4 settings, the seen rule, generic types) through the CLI, each in its own process under a 60 s deadline; "
                      "distinct = distinct (family, shape or keys or program, outcome)",
                      ev, len(kinds))


CHECKS = {"C13": check_C13}
