"""C18: generated code is reflection-free, stateless and imports only what it needs -- judged on the emitted files of three families."""
import fam_rules
import fam_enum_lib
import fam_calls
from vlib import read_ndjson


def check_C18(run):
    n = 0
    kinds = set()
    summ, scen, obs = fam_rules.pipeline(run, "C18")
    for r in read_ndjson(obs):
        if not r["exec"] and r["gen"] == "ok":
            n += 1
            kinds.add(("rules", tuple(r["imports"]), tuple(r["decls"])))
            if len(run.samples) < 2 and r["imports"]:
                run.samples.append({"family": "rules", "s": fam_rules.shape(r["s"]), "t": fam_rules.shape(r["t"]), "imports": r["imports"], "decls": r["decls"]})
    obs2 = fam_enum_lib.pipeline(run)
    for r in read_ndjson(obs2):
        if not r["exec"] and r["gen"] == "ok":
            n += 1
            kinds.add(("enum", tuple(r["imports"]), tuple(r["decls"]), r["unknown"]))
            if len([s for s in run.samples if s["family"] == "enum"]) < 2 and "fmt" in r["imports"]:
                run.samples.append({"family": "enum", "unknown": r["unknown"], "map": r["map"], "imports": r["imports"], "decls": r["decls"]})
    import fam_struct
    summ4, obs4 = fam_struct.pipeline(run)
    for r in read_ndjson(obs4):
        if r.get("gen") == "ok" and "imports" in r:
            n += 1
            kinds.add(("struct", r["kind"], tuple(r["imports"]), tuple(r["decls"])))
    import fam_text
    wobs = fam_text.witness(run)
    if wobs:
        for r in read_ndjson(wobs):
            if r["gen"] == "ok":
                n += 1
                kinds.add(("witness", tuple(r["imports"]), tuple(r["decls"])))
    import fam_formats
    fsumm, fobs = fam_formats.pipeline(run)
    if fobs:
        for r in read_ndjson(fobs):
            if r["gen"] == "ok":
                n += 1
                kinds.add(("formats", r["fmt"], tuple(sorted(r["decls"].items()))))
    summ3, obs3 = fam_calls.pipeline(run)
    for r in read_ndjson(obs3):
        if not r["exec"] and r["gen"] == "ok":
            n += 1
            kinds.add(("calls", tuple(r["imports"]), tuple(r["decls"])))
    run.assumptions = ["the emitted files are parsed with go/parser by the harness; import paths are mapped to roles (user package, enum packages)",
                       "output:raw is not enumerated; the function and variables formats are judged on the formats family only"]
    return run.finish("AST of every file emitted in the rules family (type shapes incl. named types and unsafe.Pointer), the enum family (fmt exactly with @error/@panic actions), the struct family (field selection, update methods with zero-value guards) and the calls family (wrapErrorsUsing package exactly when a wrap is emitted); "
                      "TLC validates import set = owners of used types (+fmt) and top-level declarations = one struct + its methods; distinct = distinct (family, imports, declarations)", n, len(kinds))


CHECKS = {"C18": check_C18}
