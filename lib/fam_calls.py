"""F-Calls family: recursive named types, extend function with error result / context, naming; serves C01, C06, C07 (and C13)."""
import os

import vlib
from vlib import Infra, read_ndjson

MC_CFG = ("SPECIFICATION Spec\nCONSTANTS\n  Fixed = TRUE\n  WithValues = %s\nINVARIANTS A_Terminates A_SweepBound A_FailsIffMust A_WellFormed A_ErrorNeverDropped A_NoDirtyAtAppend A_Values\nCHECK_DEADLOCK FALSE\n")
MC_DEV = ("SPECIFICATION Spec\nCONSTANTS\n  Fixed = FALSE\n  WithValues = FALSE\nINVARIANTS A_Terminates A_FailsIffMust A_NoDirtyAtAppend\nCHECK_DEADLOCK FALSE\n")


def pipeline(run):
    run.build_harness()
    scen = os.path.join(run.scratch, "kscen.ndjson")
    parts = 12 if run.tier == "thorough" else 30
    if run.replay:
        scen = os.path.join(run.replay, "scen-calls.ndjson")
        if not os.path.exists(scen):
            return {}, None
    else:
        # the repaired protocol (what the tree implements) and, for the record, the pinned one (DevCreatorChainOnly)
        # role A runs beside the export / replay (its long phases are single-threaded); joined before the verdict
        import concurrent.futures as cf
        pool = cf.ThreadPoolExecutor(max_workers=2)
        mc = pool.submit(run.model_check, "MC_Calls", MC_CFG % ("TRUE" if run.tier == "thorough" else "FALSE"), workers=8, timeout=6000)
        part = run.seed % parts
        out = run.tlc("Export_Calls", "INIT Init\nNEXT Next\nCONSTANTS\n  ScenOut = \"%s\"\n  Part = %d\n  Parts = %d\n  AllSuspects = TRUE\n  Fixed = TRUE\nCHECK_DEADLOCK FALSE\n" % (scen, part, parts),
                      workers=1, timeout=6000, role="export")
        if "exported" not in out:
            raise Infra("export failed:\n" + out[-3000:])
        run.extra["bounds"] = dict(programs="all 24512 programs in role A; replayed share %d/%d (by shape hash, selected by VERIF_SEED) plus every program the model does not classify ok/fail, plus 240 naming programs" % (part, parts))
    obs = os.path.join(run.scratch, "kobs.ndjson")
    trace = os.path.join(run.scratch, "ktrace.ndjson")
    summ = run.harness(["calls", "-scen", scen, "-obs", obs, "-trace", trace, "-work", os.path.join(run.scratch, "wk"), "-maxins", "400" if run.tier == "thorough" else "60"], timeout=7200)
    # B2: the hook events of these generator runs, and of the repository's own scenario inputs, against the protocol trace spec
    run.validate_trace("Trace_Gen", trace, invariants=["SigConsistentAtAppend"], properties=["ExplicitFrozen"], what="calls-family programs")
    if not run.replay:
        rtrace = os.path.join(run.scratch, "rtrace.ndjson")
        run.harness(["repotrace", "-scenarios", os.path.join(vlib.REPO, "scenario"), "-trace", rtrace, "-work", os.path.join(run.scratch, "wrt")], timeout=3600)
        run.validate_trace("Trace_Gen", rtrace, invariants=["SigConsistentAtAppend"], properties=["ExplicitFrozen"], what="repository scenarios")
    run.fam = "calls"
    run.scen_files["calls"] = scen
    run.validate_obs("Obs_Calls", obs, constants="  Fixed = TRUE")
    if not run.replay:
        mc.result()          # raises if role A failed
        pool.shutdown()
    return summ, obs


def summarise(run, obs, want_exec):
    kinds = set()
    n = 0
    for r in read_ndjson(obs):
        if r["exec"] != want_exec:
            continue
        n += 1
        if want_exec:
            k = (str(r["shape"]), r["rootErr"], r["extErr"], r["rootCtx"], r["extCtx"], str(r["in"]), r["faults"], r["err"])
            if len(run.samples) < 4 and r["faults"] and r["err"]:
                run.samples.append({k2: r[k2] for k2 in ("shape", "rootErr", "extErr", "rootCtx", "extCtx", "in", "faults", "err", "out")})
        else:
            k = (r["dir"], str(r["shape"]), r["rootErr"], r["extErr"], r["rootCtx"], r["extCtx"], r["gen"], r.get("compiles"))
            if len(run.samples) < 4 and r["dir"] != "p":
                run.samples.append({k2: r.get(k2) for k2 in ("dir", "shape", "rootErr", "extErr", "rootCtx", "extCtx", "gen", "compiles", "apiOK", "comperr")})
        kinds.add(k)
    return n, len(kinds)


ASSUME = ["named struct types A, B (mutually recursive through pointers, slices and by value) with 1-2 fields; one extend function int -> string",
          "inputs: all values of A to pointer/slice depth 1 (capped per program, evenly spaced), each without faults and with the fault plan {a}",
          "compile errors are attributed per program (own package, go build -gcflags=all=-e, errors parsed by path); the declared API is asserted by a separate package per program"]


def check_C01(run):
    summ, obs = pipeline(run)
    n, d = summarise(run, obs, False)
    # every other family that compiles generated code reports uncompilable output as a C01 fingerprint: type shapes
    # (incl. unnamed struct types with tags / embedded fields, named reference types) and field / update / default programs
    import fam_rules
    import fam_struct
    rsumm, rscen, robs = fam_rules.pipeline(run, "VAL")
    ssumm, sobs = fam_struct.pipeline(run)
    # the three output formats: compiles, the declared API exists in the format's shape and computes the conversion
    import fam_formats
    fsumm, fobs = fam_formats.pipeline(run)
    # the identifier allocator: bounded call sequences replayed on the real namer (no name handed out twice)
    import fam_namer
    fam_namer.pipeline(run)
    n += rsumm.get("generated", 0) + ssumm.get("generated", 0) + fsumm.get("generated", 0)
    d += rsumm.get("generated", 0) + ssumm.get("generated", 0) + fsumm.get("generated", 0)
    run.assumptions = ASSUME + ["Go's type checker is the observation (not re-specified); the spec contributes the generator-controlled causes (stale call edges, import alias shadowing)"]
    return run.finish("every replayed program of the calls family generated by the real tool, written, compiled per program and asserted to implement the declared interface; "
                      "plus every generating scenario of the rules value universe and of the struct family, each compiled in a file of its own; plus 216 programs over the output formats struct / function / variables (API assertion in the format's shape, executed); distinct = distinct (program, directory name, outcome)", n, d)


def check_C06(run):
    summ, obs = pipeline(run)
    # map ... | FUNC at exactly the configured field lives in the struct family
    import fam_struct
    fam_struct.pipeline(run)
    # a declared method behind skipCopySameType on its caller is an effect witness
    import fam_text
    fam_text.witness(run)
    n, d = summarise(run, obs, True)
    run.assumptions = ASSUME
    return run.finish("every generated method executed on every (capped) input; the extend function marks its argument (and the context token it received); TLC demands the mark at every int->string position at any depth; distinct = distinct (program, input, fault plan, result)", n, d)


def check_C07(run):
    summ, obs = pipeline(run)
    # update methods under the wrapping modes live in the struct family
    import fam_struct
    fam_struct.pipeline(run)
    n, d = summarise(run, obs, True)
    run.assumptions = ASSUME + ["update methods are covered by two fixed programs of the struct family (one per wrapping mode), not by the program grammar of this family"]
    return run.finish("every generated method with a fallible extend function / source method executed without faults (nil error + normal result demanded) and with the fault plan {a} (an error that is one of the reachable injected ones demanded, at the location the model computes: all elements outermost first under wrapErrorsUsing, the innermost element per method under wrapErrors); programs that would drop an error must be refused; distinct = distinct (program, input, fault plan, result)", n, d)


CHECKS = {"C01": check_C01, "C06": check_C06, "C07": check_C07}
