"""F-Text family, comments part: comment layouts around declarations; serves C19."""
import os

import fam_sig
from vlib import Infra, read_ndjson

MC_CFG = "SPECIFICATION Spec\nCONSTANTS\n  Deep = %s\nINVARIANTS A_DetachedIgnored A_MethodTrailingIgnored A_LinesAreDirectives A_Order A_MarkerIsLine\nCHECK_DEADLOCK FALSE\n"


def check_C19(run):
    run.build_harness()
    deep = "TRUE" if run.tier == "thorough" else "FALSE"
    scen = os.path.join(run.scratch, "cscen.ndjson")
    if run.replay:
        scen = os.path.join(run.replay, "scen-comments.ndjson")
    else:
        run.model_check("MC_Comments", MC_CFG % deep, workers=16, timeout=3000)
        out = run.tlc("Export_Comments", "INIT Init\nNEXT Next\nCONSTANTS\n  ScenOut = \"%s\"\n  Deep = %s\nCHECK_DEADLOCK FALSE\n" % (scen, deep), workers=1, timeout=3000, role="export")
        if "exported" not in out:
            raise Infra("export failed:\n" + out[-3000:])
    obs = os.path.join(run.scratch, "cobs.ndjson")
    summ = {}
    if os.path.exists(scen):
        summ = run.harness(["comments", "-scen", scen, "-obs", obs, "-work", os.path.join(run.scratch, "wc")], timeout=3600)
        run.fam = "comments"
        run.scen_files["comments"] = scen
        run.validate_obs("Obs_Comments", obs)
    # doc comments of custom functions (read by pkgload, not by comments.ParseDocs): the signature family carries the
    # `goverter:context` line in several layouts and in two same-named packages; Obs_Signature attributes a misread line to C19
    ssumm, sobs = fam_sig.pipeline(run)
    kinds = set()
    for r in (read_ndjson(sobs) if sobs else []):
        if r["use"] == "extend":
            kinds.add(("custom-function", r["layout"], r["place"], tuple(r["params"]), r["gen"]))
    for r in (read_ndjson(obs) if os.path.exists(obs) else []):
        k = (r["kind"], r["attach"], tuple(r["group"]), tuple(r["mgroup"]), r["outcome"], len(r["found"]))
        if len(run.samples) < 5 and r["attach"] == "doc" and len(r["group"]) > 1 and r["kind"] not in [s["kind"] for s in run.samples]:
            run.samples.append({k2: r[k2] for k2 in ("kind", "attach", "group", "mgroup", "outcome", "found")})
        kinds.add(k)
    run.assumptions = ["layouts are observed through the public API comments.ParseDocs on materialised files (one declaration under test per file)",
                       "ASCII comment text only (no Unicode case folding is involved in comment handling)"]
    return run.finish("every layout of 9 declaration kinds x 4 attachments (doc, detached by a blank line, trailing, inside the body) x comment groups of 1-2 (thorough: 3) items over "
                      "11 marker spellings and 8-15 comment item shapes (line/block comments, directive style, tabs, trailing blanks, prose containing the marker), plus 61 method/variable doc groups; "
                      "custom functions: the context line of the doc comment in 7 layouts (4 settings, 3 non-settings) and in two packages sharing a package name, judged by the generation outcome; "
                      "distinct = distinct (layout, outcome)", summ.get("scenarios", 0) + ssumm.get("scenarios", 0), len(kinds))


CHECKS = {"C19": check_C19}
