"""F-Enum family: enum pairs with enum:map / enum:unknown / enum yes|no in top, field and element positions; serves C08."""
import os

from vlib import Infra, read_ndjson


def pipeline(run):
    run.build_harness()
    maxlen = 3 if run.tier == "thorough" else 2
    scen = os.path.join(run.scratch, "escen.ndjson")
    if run.replay:
        scen = os.path.join(run.replay, "scen-enum.ndjson")
        if not os.path.exists(scen):
            run.extra["enum_summary"] = {}
            return None
    else:
        run.model_check("MC_Enum", "SPECIFICATION Spec\nCONSTANTS\n  MaxLen = %d\nINVARIANTS A_GenIffOK A_RunAsStated\nCHECK_DEADLOCK FALSE\n" % maxlen, workers=16, timeout=3000)
        out = run.tlc("Export_Enum", "INIT Init\nNEXT Next\nCONSTANTS\n  ScenOut = \"%s\"\n  MaxLen = %d\nCHECK_DEADLOCK FALSE\n" % (scen, maxlen), workers=1, timeout=3000, role="export")
        if "exported" not in out:
            raise Infra("export failed:\n" + out[-3000:])
    obs = os.path.join(run.scratch, "eobs.ndjson")
    summ = run.harness(["enum", "-scen", scen, "-obs", obs, "-work", os.path.join(run.scratch, "we")], timeout=7200)
    run.fam = "enum"
    run.scen_files["enum"] = scen
    run.validate_obs("Obs_Enum", obs)
    run.extra["enum_summary"] = summ
    return obs


def check_C08(run):
    obs = pipeline(run)
    summ = run.extra["enum_summary"]
    maxlen = 3 if run.tier == "thorough" else 2
    kinds = set()
    for r in read_ndjson(obs):
        k = (str(r["src"]), str(r["tgt"]), str(r["map"]), r["unknown"], r["rootErr"], r["pos"], r["enumOn"], r.get("gen"), r.get("x"), str(r.get("res")))
        if len(run.samples) < 4 and r["exec"] and r["map"] and r["res"]["k"] != "val":
            run.samples.append({k2: r[k2] for k2 in ("src", "tgt", "map", "unknown", "rootErr", "pos", "x", "res")})
        kinds.add(k)
    run.assumptions = ["integer enums with member values in {0,1}; member names over {A,B,C}; at most one enum:map line; transformers are not enumerated here",
                       "source and target enums live in dependency packages with exported members"]
    return run.finish("every program over enums with up to %d members (duplicate values included) x 6 enum:map lines x 7 enum:unknown settings x root with/without error x positions {top, field, slice element} x enum yes|no; "
                      "each generated converter executed on member and non-member values {0,1,2,9}; distinct = distinct (program, input, outcome)" % maxlen,
                      summ.get("scenarios", 0) + summ.get("executions", 0), len(kinds))


CHECKS = {"C08": check_C08}
