from fam_enum import pipeline  # noqa: F401
