"""Output formats family (struct / function / variables): serves C01 and C18."""
import os

from vlib import Infra, read_ndjson


def pipeline(run):
    run.build_harness()
    scen = os.path.join(run.scratch, "fscen.ndjson")
    if run.replay:
        scen = os.path.join(run.replay, "scen-formats.ndjson")
        if not os.path.exists(scen):
            return {}, None
    else:
        run.model_check("MC_Formats", "SPECIFICATION Spec\nINVARIANTS A_DeclsAsDocumented A_OneContainer\nCHECK_DEADLOCK FALSE\n", workers=4, timeout=600)
        out = run.tlc("Export_Formats", "INIT Init\nNEXT Next\nCONSTANTS\n  ScenOut = \"%s\"\nCHECK_DEADLOCK FALSE\n" % scen, workers=1, timeout=600, role="export")
        if "exported" not in out:
            raise Infra("export failed:\n" + out[-3000:])
    obs = os.path.join(run.scratch, "fobs.ndjson")
    summ = run.harness(["formats", "-scen", scen, "-obs", obs, "-work", os.path.join(run.scratch, "wf")], timeout=3600)
    run.fam = "formats"
    run.scen_files["formats"] = scen
    run.validate_obs("Obs_Formats", obs)
    return summ, obs
