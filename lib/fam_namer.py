"""Namer family: the identifier allocator (namer/namer.go) as a bounded state machine; call sequences replayed on the real Namer. Serves C01."""
import os

from vlib import Infra


def pipeline(run):
    run.build_harness()
    n = 5 if run.tier == "thorough" else 4
    scen = os.path.join(run.scratch, "nscen.ndjson")
    if run.replay:
        scen = os.path.join(run.replay, "scen-namer.ndjson")
        if not os.path.exists(scen):
            return {}, None
    else:
        run.model_check("MC_Namer", "SPECIFICATION Spec\nCONSTANTS\n  MaxLen = %d\nINVARIANTS A_GivenAreUsed\nPROPERTY A_FreshNames\nCHECK_DEADLOCK FALSE\n" % (n + 1), workers=8, timeout=1200)
        out = run.tlc("Export_Namer", "INIT Init\nNEXT Next\nCONSTANTS\n  ScenOut = \"%s\"\n  MaxLen = %d\nCHECK_DEADLOCK FALSE\n" % (scen, n), workers=1, timeout=1200, role="export")
        if "exported" not in out:
            raise Infra("export failed:\n" + out[-3000:])
    obs = os.path.join(run.scratch, "nobs.ndjson")
    summ = run.harness(["namer", "-scen", scen, "-obs", obs], timeout=1200)
    run.fam = "namer"
    run.scen_files["namer"] = scen
    run.validate_obs("Obs_Namer", obs)
    return summ, obs
