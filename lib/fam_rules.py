"""F-Rules family: one declared method Conv(S) T per scenario; serves C02, C03, C04, C11 (pointer clauses), C13 (type part)."""
import json
import os
import subprocess
import concurrent.futures as cf

from vlib import Infra, log, read_ndjson, VERIF

# (leaves, depth, width, onlyConv) per tier and purpose
UNIVERSES = {
    # (leaves, depth, value width, only generating pairs, pair mode)
    # C03 needs every pair (also the unconvertible ones); "paired" adds deep related pairs
    ("C03", "quick"): [("LeavesQuick", 1, 1, False, "all"), ("AllBasics", 0, 1, False, "all"), ("LeavesPair", 2, 1, False, "paired")],
    # (measured: LeavesDeep at depth 2 alone gives 800 k scenarios, which the single in-process generator run does not finish in an hour)
    ("C03", "thorough"): [("LeavesFull", 1, 1, False, "all"), ("LeavesMini", 2, 1, False, "all"), ("LeavesVal", 3, 1, False, "paired")],
    ("C11", "quick"): [("LeavesPtr", 1, 1, False, "all"), ("LeavesMini", 3, 1, True, "paired")],
    ("C11", "thorough"): [("LeavesPtr", 1, 2, False, "all"), ("LeavesPtr", 3, 1, True, "paired")],
    ("C18", "quick"): [("LeavesOdd", 1, 1, True, "all"), ("LeavesPair", 2, 1, True, "paired")],
    ("C18", "thorough"): [("LeavesFull", 1, 1, True, "all"), ("LeavesVal", 3, 1, True, "paired")],
    ("C13", "quick"): [("LeavesOdd", 1, 1, False, "all")],
    ("C13", "thorough"): [("LeavesFull", 1, 1, False, "all")],
    # value-level properties only need the pairs that generate; they can afford deeper types and wider values
    ("VAL", "quick"): [("LeavesVal", 1, 2, True, "all"), ("LeavesTiny", 2, 1, True, "all"), ("LeavesPair", 2, 1, True, "paired")],
    ("VAL", "thorough"): [("LeavesFull", 1, 2, True, "all"), ("LeavesDeep", 2, 2, True, "all"), ("LeavesVal", 3, 1, True, "paired"), ("LeavesMini", 4, 1, True, "paired")],
}


def mc_cfg(leaves, depth, width, mode):
    return ("SPECIFICATION Spec\nCONSTANTS\n  Leaves <- %s\n  Depth = %d\n  Width = %d\n  Mode = \"%s\"\n"
            "INVARIANTS A_C03 A_C02 A_C02strict A_C04 A_C04strict\nCHECK_DEADLOCK FALSE\n" % (leaves, depth, width, mode))


def export_cfg(leaves, depth, width, only, out, part, parts, mode):
    return ("INIT Init\nNEXT Next\nCONSTANTS\n  Leaves <- %s\n  Depth = %d\n  Width = %d\n  OutFile = \"%s\"\n"
            "  Part = %d\n  Parts = %d\n  OnlyConv = %s\n  Mode = \"%s\"\nCHECK_DEADLOCK FALSE\n" % (leaves, depth, width, out, part, parts, "TRUE" if only else "FALSE", mode))


def pipeline(run, kind, race=False):
    """A: model check + export; replay; B1. Returns (number of scenarios, number of executions, scenario file, obs file)."""
    run.build_harness()
    scen = os.path.join(run.scratch, "scen.ndjson")
    if run.replay:
        scen = os.path.join(run.replay, "scen-rules.ndjson")
        if not os.path.exists(scen):
            return {}, scen, None
    else:
        unis = UNIVERSES[(kind, run.tier)]
        run.extra["universes"] = [dict(leaves=u[0], depth=u[1], width=u[2], only_generating=u[3], pairs=u[4]) for u in unis]
        parts = 8 if run.tier == "thorough" else 4
        jobs = []
        with cf.ThreadPoolExecutor(max_workers=8) as ex:
            for (leaves, depth, width, only, mode) in unis:
                jobs.append(ex.submit(run.model_check, "MC_Rules", mc_cfg(leaves, depth, min(width, 1), mode), workers=8, timeout=3000))
                n = parts if depth >= 2 or leaves == "LeavesFull" else 1
                for p in range(n):
                    out = os.path.join(run.scratch, "scen-%s-%d-%d.ndjson" % (leaves, depth, p))
                    jobs.append(ex.submit(export_one, run, leaves, depth, width, only, out, p, n, mode))
            outs = [j.result() for j in jobs]
        with open(scen, "w") as fh:
            for o in outs:
                if isinstance(o, str) and o.endswith(".ndjson") and os.path.exists(o):
                    with open(o) as src:
                        for line in src:
                            fh.write(line)
    obs = os.path.join(run.scratch, "obs.ndjson")
    work = os.path.join(run.scratch, "work")
    args = ["rules", "-scen", scen, "-obs", obs, "-work", work]
    trace = None
    if kind in ("C11", "C13") or run.tier == "thorough":
        trace = os.path.join(run.scratch, "rules-trace.ndjson")
        args += ["-trace", trace]
    if race:
        args += ["-race", "-race-every", "2" if run.tier == "thorough" else "5"]
    summ = chunked_harness(run, scen, obs, work, trace, args)
    if trace:
        # B2: every logged rule choice must be the first matching builder of the chain for the logged type features
        run.validate_trace("Trace_Gen", trace, invariants=["SigConsistentAtAppend"], properties=["ExplicitFrozen"], what="rules-family programs", timeout=3600)
    run.fam = "rules"
    run.scen_files["rules"] = scen
    n = run.validate_obs("Obs_Rules", obs, workers=1, timeout=3600)
    return summ, scen, obs


CHUNK = int(os.environ.get("VERIF_RULES_CHUNK", "15000"))


def chunked_harness(run, scen, obs, work, trace, args):
    """One generator run type-checks all converters of its scenario file as one package, which is superlinear: beyond CHUNK scenarios
    the file is cut into pieces that run as separate harness processes (three at a time); scenario ids are shifted back afterwards."""
    with open(scen) as fh:
        lines = fh.readlines()
    if len(lines) <= CHUNK:
        return run.harness(args, timeout=7200)
    import re
    idre = re.compile(r'"id":(\d+)([,}])')
    pieces = []
    for k in range(0, len(lines), CHUNK):
        base = os.path.join(run.scratch, "chunk%d" % (k // CHUNK))
        os.makedirs(base, exist_ok=True)
        with open(os.path.join(base, "scen.ndjson"), "w") as fh:
            fh.writelines(lines[k:k + CHUNK])
        a = ["rules", "-scen", os.path.join(base, "scen.ndjson"), "-obs", os.path.join(base, "obs.ndjson"), "-work", os.path.join(base, "work")]
        if trace:
            a += ["-trace", os.path.join(base, "trace.ndjson")]
        a += [x for x in args if x in ("-race",)]
        if "-race-every" in args:
            a += ["-race-every", args[args.index("-race-every") + 1]]
        pieces.append((k, base, a))
    with cf.ThreadPoolExecutor(max_workers=3) as ex:
        summs = list(ex.map(lambda p: run.harness(p[2], timeout=7200), pieces))
    total = {}
    for sm in summs:
        for key, v in sm.items():
            if isinstance(v, (int, float)):
                total[key] = total.get(key, 0) + v
    with open(obs, "w") as out:
        for (k, base, _a) in pieces:
            with open(os.path.join(base, "obs.ndjson")) as fh:
                for line in fh:
                    out.write(idre.sub(lambda m: '"id":%d%s' % (int(m.group(1)) + k, m.group(2)), line, count=1) if k else line)
    if trace:
        with open(trace, "w") as out:
            for (k, base, _a) in pieces:
                with open(os.path.join(base, "trace.ndjson")) as fh:
                    out.writelines(fh)
    import shutil
    for (k, base, _a) in pieces:
        shutil.rmtree(base, ignore_errors=True)
    return total


def export_one(run, leaves, depth, width, only, out, part, parts, mode):
    o = run.tlc("Export_Rules", export_cfg(leaves, depth, width, only, out, part, parts, mode), workers=1, timeout=3000, role="export")
    if "exported" not in o:
        raise Infra("export failed:\n" + o[-3000:])
    return out


def replay_writer(scen):
    def w(d, ids):
        want = set(ids)
        with open(os.path.join(d, "scen.ndjson"), "w") as out:
            for i, line in enumerate(open(scen)):
                if i in want:
                    out.write(line)
    return w


def distinct(obs, key):
    seen = set()
    n = 0
    samples = []
    for r in read_ndjson(obs):
        n += 1
        k = key(r)
        if k is not None and k not in seen:
            seen.add(k)
            if len(samples) < 4:
                samples.append(r)
    return n, len(seen), samples


def shape(t):
    if t["k"] in ("ptr", "slice", "array"):
        return t["k"] + "(" + shape(t["e"]) + ")"
    if t["k"] == "map":
        return "map(" + shape(t["key"]) + "," + shape(t["e"]) + ")"
    if t["k"] == "struct":
        return "struct(" + ",".join(f["n"] + ":" + shape(f["t"]) for f in t["fs"]) + ")"
    if t["k"] == "named":
        return t["id"]
    if t["k"] == "basic":
        return t["b"]
    return t.get("id", t["k"])


def check_C03(run):
    import fam_struct
    summ, scen, obs = pipeline(run, "C03")
    fam_struct.pipeline(run)          # accessibility clause: unexported fields that would have to be read or written
    n, d, samples = distinct(obs, lambda r: None if r["exec"] else (shape(r["s"]), shape(r["t"]), r["gen"], json.dumps(r["cfg"], sort_keys=True)))
    run.samples = [{"s": shape(r["s"]), "t": shape(r["t"]), "cfg": r["cfg"], "generator": r["gen"]} for r in samples]
    run.assumptions = ["the declarative predicate Conv (spec/PropsValue.tla) is a faithful reading of the documented rules",
                       "types are drawn from the bounded universe named in coverage.universes; struct types have at most one field here (field selection is C05)"]
    return run.finish("every (source type, target type, skipCopySameType, useZeroValueOnPointerInconsistency) of the bounded universe is generated by the real tool; "
                      "distinct = distinct (source shape, target shape, settings, outcome); non-trivial = all (each is a separate generator run)",
                      summ.get("scenarios", 0), d, replay_writer=replay_writer(scen))


def check_value(run, race=False):
    summ, scen, obs = pipeline(run, "VAL", race=race)
    n, d, samples = distinct(obs, lambda r: (shape(r["s"]), shape(r["t"]), json.dumps(r["cfg"], sort_keys=True), json.dumps(r.get("in"), sort_keys=True)) if r["exec"] else None)
    run.samples = [{"s": shape(r["s"]), "t": shape(r["t"]), "cfg": r["cfg"], "in": r.get("in"), "out": r.get("out"), "race": r.get("race")} for r in samples]
    run.assumptions = ["map key conversions are injective on the enumerated keys", "inputs are finite and acyclic (TLC-enumerated value sets, width per coverage.universes)"]
    ev = summ.get("executions", 0) + summ.get("race_runs", 0)
    return ev, d, scen


def check_C02(run):
    ev, d, scen = check_value(run)
    # multi-field structs, field paths through nil pointers, update / default programs: their executions must not panic either
    import fam_struct
    fam_struct.pipeline(run)
    return run.finish("every generating (source, target, settings) of the bounded universe, executed on every TLC-enumerated input value (nil/empty/non-empty containers, "
                      "nil at each pointer position, zero and two boundary values per basic kind); distinct = distinct (type pair, settings, input)",
                      ev, d, replay_writer=replay_writer(scen))


def check_C04(run):
    ev, d, scen = check_value(run, race=True)
    # skipCopySameType is the one setting that permits sharing: its *effect* per method / generated helper (address labels)
    import fam_text
    fam_text.witness(run)
    # field mappings that hand the source itself to a pointer field (map . F) must copy as well
    import fam_struct
    fam_struct.pipeline(run)
    run.assumptions.append("the race detector observes the schedules that occur in 4 goroutines x 25 calls per input; the universal claim rests on role A (result cells are fresh) plus B1 address labelling")
    return run.finish("every generating scenario executed with address labelling (result cells inside input allocations are labelled as shared) and once more under -race "
                      "with 4 goroutines x 25 calls on one shared source value; distinct = distinct (type pair, settings, input)",
                      ev, d, replay_writer=replay_writer(scen))


CHECKS = {"C02": check_C02, "C03": check_C03, "C04": check_C04}
