"""F-Run family: histories of CLI runs, output placement, argument vectors; serves C09, C15, C16, C17."""
import os

from vlib import Infra, read_ndjson

ALLV = '{"root-dots", "flag-dots", "root-listed", "root-reversed", "root-dup"}'
TWOV = '{"root-dots", "flag-dots"}'
# (HistLen, Variants, ArgLen, WithPlace, WithArgv) per property and tier
ALLBAD = '{"directive", "signature", "conversion", "unknown2", "enumkeys2", "fieldtargets2", "marker", "format", "ctxmissing3", "twopkgs", "twomarkers", "conversion2", "directive4", "twobroken", "extendmissing"}'
FEWBAD = '{"conversion", "marker", "format"}'
ONEBAD = '{"conversion"}'
ALLLAY = '{"separate", "same", "shared", "tie", "twofiles"}'
ALLTAG = '{"default", "custom", "multi", "envtag"}'
# (HistLen, Variants, ArgLen, WithPlace, WithArgv, BadKinds, Layouts, Tags) per property and tier
PARAMS = {
    ("C09", "quick"): (3, ALLV, 1, False, False, '{"conversion", "conversion2", "directive4", "twobroken", "ctxmissing3", "unknown2", "fieldtargets2", "twopkgs", "twomarkers"}', '{"separate", "shared", "tie"}', '{"default"}'), ("C09", "thorough"): (3, ALLV, 1, True, False, ALLBAD, ALLLAY, ALLTAG),
    ("C15", "quick"): (2, TWOV, 1, True, False, ONEBAD, ALLLAY, '{"default"}'), ("C15", "thorough"): (3, ALLV, 1, True, False, FEWBAD, ALLLAY, ALLTAG),
    ("C16", "quick"): (3, '{"root-dots"}', 1, False, False, ONEBAD, '{"separate", "same", "shared", "twofiles"}', ALLTAG), ("C16", "thorough"): (4, TWOV, 1, True, False, FEWBAD, ALLLAY, ALLTAG),
    ("C17", "quick"): (3, '{"root-dots"}', 3, False, True, ALLBAD, '{"separate", "twofiles"}', '{"default"}'), ("C17", "thorough"): (4, TWOV, 4, True, True, ALLBAD, ALLLAY, ALLTAG),
}
MC_CFG = ("SPECIFICATION Spec\nCONSTANTS\n  MaxLen = %d\nINVARIANTS A_FailureIsReadOnly A_ExitReflectsOutcome A_SuccessWritesAll A_StaleNeverBlocks A_HistoryIndependent\n"
          "PROPERTY A_OnlyGenWrites\nCHECK_DEADLOCK FALSE\n")


def pipeline(run):
    run.build_harness()
    cli = run.build_cli()
    hl, variants, al, wp, wa, bads, lays, tags = PARAMS[(run.prop, run.tier)]
    scen = os.path.join(run.scratch, "rscen.ndjson")
    if run.replay:
        scen = os.path.join(run.replay, "scen-run.ndjson")
        if not os.path.exists(scen):
            return {}, None
    else:
        run.model_check("Run", MC_CFG % (4 if run.tier == "quick" else 5), workers=16, timeout=1800)
        cfg = ("INIT Init\nNEXT Next\nCONSTANTS\n  ScenOut = \"%s\"\n  HistLen = %d\n  Variants = %s\n  ArgLen = %d\n  WithPlace = %s\n  WithArgv = %s\n  BadKinds = %s\n  LayoutSet = %s\n  TagSet = %s\nCHECK_DEADLOCK FALSE\n"
               % (scen, hl, variants, al, "TRUE" if wp else "FALSE", "TRUE" if wa else "FALSE", bads, lays, tags))
        out = run.tlc("Export_Run", cfg, workers=1, timeout=1800, role="export")
        if "exported" not in out:
            raise Infra("export failed:\n" + out[-3000:])
        run.extra["bounds"] = dict(history_length=hl, gen_variants=variants, argv_length=al, placements=wp, argvs=wa, faults=bads, layouts=lays, tags=tags)
    obs = os.path.join(run.scratch, "robs.ndjson")
    summ = run.harness(["run", "-scen", scen, "-obs", obs, "-work", os.path.join(run.scratch, "wr"), "-bin", cli], timeout=7200)
    run.fam = "run"
    run.scen_files["run"] = scen
    run.validate_obs("Obs_Run", obs, chunk=10 ** 9)      # one chunk: the C09 memo spans all records
    return summ, obs


def summarise(run, obs):
    kinds = set()
    samples = []
    for r in read_ndjson(obs):
        if r["kind"] == "hist":
            k = ("hist", r["layout"], r["tags"], tuple((s["op"], s.get("v", s.get("k", ""))) for s in r["steps"]), tuple(o["exit"] for o in r["obs"]))
            if len([s for s in samples if s.get("kind") == "hist"]) < 2 and len(r["steps"]) >= 2:
                samples.append({"kind": "hist", "layout": r["layout"], "tags": r["tags"], "steps": r["steps"], "exits": [o["exit"] for o in r["obs"]],
                                "last_outputs": r["obs"][-1]["outputs"]})
        elif r["kind"] == "place":
            k = ("place", r["ofile"], r["opkg"], r["exist"], r["cwd"], r["conv2"], tuple(r["decl"]), r["exit"])
            if len([s for s in samples if s.get("kind") == "place"]) < 2:
                samples.append({k2: r[k2] for k2 in ("kind", "decl", "ofile", "opkg", "exist", "cwd", "conv2", "exit", "created")})
        elif r["kind"] == "hdr":
            k = ("hdr", r["tagflag"], r["consflag"], r["exit"], r["out"].get("constraint"))
            if len([s for s in samples if s.get("kind") == "hdr"]) < 1 and r["consflag"] == "empty":
                samples.append({"kind": "hdr", "tagflag": r["tagflag"], "consflag": r["consflag"], "constraint_line": r["out"].get("constraint")})
        else:
            k = ("argv", tuple(r["argv"]), r["exit"])
            if len([s for s in samples if s.get("kind") == "argv"]) < 2 and len(r["argv"]) >= 2:
                samples.append({k2: r[k2] for k2 in ("kind", "argv", "exit", "usageOnStdout", "errorOnStderr")})
        kinds.add(k)
    run.samples = samples
    return len(kinds)


RULES = {
    "C09": "every history of steps {gen in 5 pattern/cwd forms, edit types, break/delete output, guarded user file, add/remove one of 5 faulty converters} up to the bound, on 3 layouts x 2 tag configurations, each gen a fresh process in its own directory; "
           "TLC keeps a memo per visible input (layout, tags, types version, fault) and demands identical exit status, output bytes and (root-normalised) diagnostic for every later run with that input",
    "C15": "every placement (declaring package depth x 7 output:file forms x 4 output:package forms x existing package x 3 cwd forms x second converter/variables block) through the CLI with before/after tree snapshots under umask 0, plus the histories",
    "C16": "every history up to the bound on 3 layouts x 2 (build tag, output constraint) pairs: header and constraint of every emitted file, regeneration over absent/current/stale/broken output and guarded user files, final tree compiles",
    "C17": "every history up to the bound with any of 5 faulty converters present or absent: exit status, stderr, tree snapshot before/after each run; every argument vector over a 12-word alphabet up to the bound against Cli.tla",
}


def make(prop):
    def check(run):
        summ, obs = pipeline(run)
        d = summarise(run, obs)
        run.assumptions = ["file system effects are observed by full tree snapshots (content hash, mode, mtime) before and after every run under umask 0",
                           "the guarded user file and the breakage keep the two header lines of generated files (otherwise the file is no longer 'previously generated')"]
        return run.finish(RULES[prop] + "; distinct = distinct (scenario, exit statuses)", summ.get("cli_runs", 0), d)
    return check


CHECKS = {p: make(p) for p in ("C09", "C15", "C16", "C17")}
