"""Signature family: parameter / result lists of converter methods; serves C14."""
import os

from vlib import Infra, read_ndjson


def pipeline(run):
    """A: model check + export; replay; B1. Returns (harness summary, observation file) -- None when a replay bundle has no scenarios of this family."""
    run.build_harness()
    n = 4 if run.tier == "thorough" else 3
    scen = os.path.join(run.scratch, "gscen.ndjson")
    if run.replay:
        scen = os.path.join(run.replay, "scen-sig.ndjson")
        if not os.path.exists(scen):
            return {}, None
    else:
        run.model_check("MC_Signature", "SPECIFICATION Spec\nCONSTANTS\n  MaxParams = %d\nINVARIANTS A_AcceptsIffValid A_SourceAsStated A_Total\nCHECK_DEADLOCK FALSE\n" % n, workers=8, timeout=1800)
        out = run.tlc("Export_Signature", "INIT Init\nNEXT Next\nCONSTANTS\n  ScenOut = \"%s\"\n  MaxParams = %d\nCHECK_DEADLOCK FALSE\n" % (scen, n), workers=1, timeout=1800, role="export")
        if "exported" not in out:
            raise Infra("export failed:\n" + out[-3000:])
    obs = os.path.join(run.scratch, "gobs.ndjson")
    summ = run.harness(["sig", "-scen", scen, "-obs", obs, "-work", os.path.join(run.scratch, "wg")], timeout=3600)
    run.fam = "sig"
    run.scen_files["sig"] = scen
    run.validate_obs("Obs_Signature", obs)
    return summ, obs


def check_C14(run):
    summ, obs = pipeline(run)
    # struct-method sources (every parameter is a context, named or not) live in the struct family (Fields.tla XProgs method-ctx)
    import fam_struct
    fam_struct.pipeline(run)
    n = 4 if run.tier == "thorough" else 3
    kinds = set()
    for r in read_ndjson(obs):
        kinds.add((tuple(r["params"]), tuple(r["results"]), r["gen"], r["got"]))
        if len(run.samples) < 5 and r["gen"] == "ok" and len(r["params"]) >= 2:
            run.samples.append({k: r[k] for k in ("params", "results", "gen", "apiOK", "got", "want")})
    run.assumptions = ["converter interface methods and custom functions; of the struct-method use only Name(Loc) / Name(l Loc) with and without an available context (four programs of the struct family); map|FUNC and default uses share method.Parse but are not enumerated here",
                       "a parameter that is both the update argument and a declared context is not enumerated (the statement does not fix the precedence)",
                       "'emitted with parameters in the declared order' is observed by compiling `var _ p.C = &gen.CImpl{}`"]
    return run.finish("every signature with 0..%d parameters over {source, second plain type, declared context, regex-matched context, the converter interface, update target} (each kind at most once) x 9 result lists; "
                      "generation outcome, declared interface implemented, and the value of the stated source parameter arriving in the target; distinct = distinct (signature, outcome)" % n,
                      summ.get("scenarios", 0), len(kinds))


CHECKS = {"C14": check_C14}
