"""F-Struct family: field selection (C05), accessibility clause of C03, update methods (C10)."""
import os

from vlib import Infra, read_ndjson


def pipeline(run):
    run.build_harness()
    scen = os.path.join(run.scratch, "sscen.ndjson")
    if run.replay:
        scen = os.path.join(run.replay, "scen-struct.ndjson")
        if not os.path.exists(scen):
            return {}, None
    else:
        run.model_check("MC_Fields", "SPECIFICATION Spec\nINVARIANTS A_Refines A_IgnoreWins A_MapWins\nCHECK_DEADLOCK FALSE\n", workers=8, timeout=1800)
        out = run.tlc("Export_Struct", "INIT Init\nNEXT Next\nCONSTANTS\n  ScenOut = \"%s\"\nCHECK_DEADLOCK FALSE\n" % scen, workers=1, timeout=1800, role="export")
        if "exported" not in out:
            raise Infra("export failed:\n" + out[-3000:])
    obs = os.path.join(run.scratch, "sobs.ndjson")
    summ = run.harness(["struct", "-scen", scen, "-obs", obs, "-work", os.path.join(run.scratch, "ws")], timeout=7200)
    run.fam = "struct"
    run.scen_files["struct"] = scen
    run.validate_obs("Obs_Struct", obs)
    return summ, obs


def check_C05(run):
    summ, obs = pipeline(run)
    kinds = set()
    n = 0
    for r in read_ndjson(obs):
        if r["kind"] != "field":
            continue
        n += 1
        k = (str(r["prog"]), r["gen"], r["full"], r["pnil"])
        if len(run.samples) < 4 and r["gen"] == "ok" and r["prog"]["am"] and r["prog"]["map"] == "none" and not r["prog"]["ignore"]:
            run.samples.append({"prog": r["prog"], "generator": r["gen"], "value_full_input": r["full"], "value_P_nil": r["pnil"]})
        kinds.add(k)
    run.assumptions = ["one int target field over the source alphabet {Ab, AB, B, Inner{Q,Ab}, P *{V}}; every source position carries a distinct token",
                       "useZeroValueOnPointerInconsistency is on (a path through a pointer yields a pointer-typed temporary)",
                       "the overlap 'same-named direct field and exact autoMap match' is left open (statement and documentation differ)"]
    return run.finish("all 6400 programs: source shape (Ab/AB present, Inner kind) x target field name x map {none, field, pointer path, nested path, unknown} x ignore x matchIgnoreCase x ignoreMissing x autoMap; "
                      "generation class, and the field value for a full input and for a nil intermediate pointer; distinct = distinct (program, outcome, values)", n, len(kinds))


def check_C10(run):
    summ, obs = pipeline(run)
    kinds = set()
    n = 0
    for r in read_ndjson(obs):
        if r["kind"] != "update":
            continue
        n += 1
        k = (str(r["prog"]), tuple(r["nonzero"]), r["srcNil"], tuple(r["post"]))
        if len(run.samples) < 4 and r["prog"]["nillable"] and r["prog"]["skip"] and len(r["nonzero"]) == 2:
            run.samples.append({"prog": r["prog"], "nonzero_source_fields": r["nonzero"], "nil_source": r["srcNil"], "post_state_per_field_A_N_P_L": r["post"]})
        kinds.add(k)
    run.assumptions = ["target fields A int, N named struct, P *int, L []int of identical types on both sides; pre-state distinguishable from every source value",
                       "a zero source field without a selected zero-skip category is left open by the statement"]
    return run.finish("all 128 update programs (3 zero-skip categories x skipCopySameType x value/pointer source x ignore x error result) x all 16 zero/non-zero source valuations (+ nil source pointer); "
                      "post-state class (kept / converted) per field; distinct = distinct (program, valuation, post-state)", n, len(kinds))


def check_C11(run):
    import fam_rules
    # pointer clauses (T -> *U non-nil, *T -> U only with the flag: nil -> zero value) are clauses of SMap / Conv
    # in the rules family: their fingerprints for pairs with a pointer asymmetry are re-emitted under C11
    fam_rules.pipeline(run, "C11")
    summ, obs = pipeline(run)
    # "with the flag set at CLI / converter / method level": its effect per method and generated helper
    import fam_text
    fam_text.witness(run)
    kinds = set()
    n = 0
    for r in read_ndjson(obs):
        if r["kind"] != "default":
            continue
        n += 1
        kinds.add((str(r["prog"]), r.get("srcNil"), str(r.get("res"))))
        if len(run.samples) < 4 and r["gen"] == "ok" and r["prog"]["ignoreB"]:
            run.samples.append({"prog": r["prog"], "nil_source": r["srcNil"], "result": r["res"]})
    run.assumptions = ["default FUNC without error result and without context; struct{A,B int} on both sides; FUNC yields {100,200}, the source {5,6}",
                       "a non-nil pointer source without default:update replaces FUNC's result (documented): ignored fields are then unconstrained"]
    return run.finish("(i) all generating pairs of the pointer universe (T, *T, **T on either side in top/field/element/map positions, flag on/off) executed on all enumerated inputs; "
                      "(ii) all 48 default-constructor programs (source/target pointer or value, FUNC returning value or pointer, with/without source argument, default:update, ignore) on a non-nil and a nil source; "
                      "distinct = distinct (program, input, result)", n + summ.get("executions", 0), len(kinds) + 2)


CHECKS = {"C05": check_C05, "C10": check_C10, "C11": check_C11}
