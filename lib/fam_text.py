"""F-Text family, settings part: directive lines at CLI / converter / method level; serves C12 (and the directive part of C13)."""
import os

from vlib import Infra, log, read_ndjson

MC_CFG = "SPECIFICATION Spec\nINVARIANTS A_InvalidRejected A_ValidAccepted A_Precedence A_Location A_NoConflictAccepted\nCHECK_DEADLOCK FALSE\n"


def pipeline(run):
    run.build_harness()
    scen = os.path.join(run.scratch, "tscen.ndjson")
    if run.replay:
        scen = os.path.join(run.replay, "scen-text.ndjson")
        if not os.path.exists(scen):
            return {}, scen, None
    else:
        run.model_check("MC_Settings", MC_CFG, workers=16, timeout=1200)
        out = run.tlc("Export_Settings", "INIT Init\nNEXT Next\nCONSTANTS\n  OutFile = \"%s\"\nCHECK_DEADLOCK FALSE\n" % scen, workers=1, timeout=1200, role="export")
        if "exported" not in out:
            raise Infra("export failed:\n" + out[-3000:])
    obs = os.path.join(run.scratch, "tobs.ndjson")
    summ = run.harness(["text", "-scen", scen, "-obs", obs, "-work", os.path.join(run.scratch, "wt")])
    run.fam = "text"
    run.scen_files["text"] = scen
    run.validate_obs("Obs_Settings", obs)
    return summ, scen, obs


def witness(run):
    """wrapErrors effect witnesses: settings resolution observed on generated helper methods (executed code) and the fmt import."""
    scen = os.path.join(run.scratch, "wscen.ndjson")
    if run.replay:
        scen = os.path.join(run.replay, "scen-witness.ndjson")
        if not os.path.exists(scen):
            return None
    else:
        out = run.tlc("Export_Witness", "INIT Init\nNEXT Next\nCONSTANTS\n  ScenOut = \"%s\"\nCHECK_DEADLOCK FALSE\n" % scen, workers=1, timeout=600, role="export")
        if "exported" not in out:
            raise Infra("export failed:\n" + out[-3000:])
    obs = os.path.join(run.scratch, "wobs.ndjson")
    run.harness(["witness", "-scen", scen, "-obs", obs, "-work", os.path.join(run.scratch, "ww")])
    run.fam = "witness"
    run.scen_files["witness"] = scen
    run.validate_obs("Obs_Witness", obs)
    return obs


def replay_writer(scen):
    def w(d, ids):
        want = set(ids)
        with open(os.path.join(d, "scen.ndjson"), "w") as out:
            for i, line in enumerate(open(scen)):
                if i in want:
                    out.write(line)
    return w


def check_C12(run):
    summ, scen, obs = pipeline(run)
    wobs = witness(run)
    kinds = {}
    samples = []
    for r in read_ndjson(obs):
        k = (r["kind"], r["outcome"], tuple(x["key"] for x in r["cli"] + r["conv"] + r["meth"] + r["sib"]))
        if k not in kinds and len(samples) < 5 and r["kind"] in ("P", "X", "V"):
            samples.append({k2: r[k2] for k2 in ("kind", "cli", "conv", "meth", "sib", "outcome", "names", "effMeth")})
        kinds[k] = kinds.get(k, 0) + 1
    if wobs:
        for r in read_ndjson(wobs):
            kinds[("witness", r["pc"], r["p1"], r["p2"], tuple(r["chain1"]), tuple(r["chain2"]))] = 1
            if len([s for s in samples if s.get("kind") == "witness"]) < 2 and r["p1"] != r["pc"]:
                samples.append({"kind": "witness", "converter": r["pc"], "M1": r["p1"], "M2": r["p2"], "error_of_M1": r["msg1"], "imports": r["imports"]})
    run.samples = samples
    run.assumptions = ["effective settings of declared methods are read from the parsed config.Method (verif-only entry point); generated sub-methods take the converter's settings (covered by effect witnesses elsewhere)",
                       "lines whose acceptance depends on the program (extend, map, default, ...) are judged only when misplaced/unknown"]
    return run.finish("every placement of every inheritable boolean setting over {absent,bare,yes,no}^3 with a sibling method, every string setting over 3 values^3, double lines, the conflicting pair in both orders at all level pairs, "
                      "every (level incl. an update sibling, key, value text) of 38 keys x 25 value texts and pairs of a boolean setting with a map/ignore/autoMap/default line; "
                      "27 wrapErrors effect witnesses (converter / M1 / M2 placements, shared generated helper) executed; distinct = distinct (kind, outcome, keys used)",
                      summ.get("scenarios", 0), len(kinds), replay_writer=replay_writer(scen))


CHECKS = {"C12": check_C12}
