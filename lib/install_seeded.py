#!/usr/bin/env python3
"""Take over the output of a sub-agent (/tmp/out-<ID>-r<k>/<n>/{patch.diff,demo,NOTE.md,meta.json}) as seeded/<id>/ after confirming it with
lib/mutant.sh verify (scratch worktree: builds, pinned tests pass, demo exits 0 without / non-zero with the change)."""
import json, os, shutil, subprocess, sys
VERIF = os.path.dirname(os.path.dirname(os.path.abspath(__file__)))
for src in sys.argv[1:]:
    meta = json.load(open(os.path.join(src, "meta.json")))
    name = meta["id"]
    dst = os.path.join(VERIF, "seeded", name)
    if os.path.exists(dst):
        name += "-2"
        meta["id"] = name
        dst = os.path.join(VERIF, "seeded", name)
    shutil.copytree(src, dst)
    r = subprocess.run([os.path.join(VERIF, "lib/mutant.sh"), "verify", dst], stdout=subprocess.PIPE, stderr=subprocess.STDOUT, text=True)
    ok = "CONFIRMED" in r.stdout and "NOT-CONFIRMED" not in r.stdout
    print(name, "CONFIRMED" if ok else "NOT CONFIRMED:\n" + r.stdout[-800:], flush=True)
    if not ok:
        shutil.rmtree(dst)
        continue
    meta["confirmed"] = "lib/mutant.sh verify seeded/%s : scratch worktree of /repo, patch applied -> go build ok, 412 tests pass, demo/run.sh exits non-zero; without the patch demo/run.sh exits 0" % name
    meta["source"] = "independent sub-agent (round 2) given only the property text, the list of already known changes and a scratch worktree"
    meta["detected_by"] = "not yet run"
    json.dump(meta, open(os.path.join(dst, "meta.json"), "w"), indent=1)
