#!/bin/bash
# lib/mutant.sh verify <dir>            confirm a seeded change in a scratch worktree: builds, passes the pinned tests,
#                                       its demonstration fails with the change and passes without it
# lib/mutant.sh detect <dir> <ID>...    apply <dir>/patch.diff to /repo, run ./check <ID> for each, undo the patch
export GOFLAGS=-mod=mod GOPROXY=off GOSUMDB=off GOTOOLCHAIN=local
cmd=$1; dir=$(cd "$2" && pwd); shift 2
case $cmd in
verify)
  wt=$(mktemp -d /tmp/mv-XXXXXX); rmdir "$wt"
  git -C /repo worktree add -q --detach "$wt" HEAD || exit 2
  trap 'git -C /repo worktree remove --force "$wt"' EXIT
  (cd "$wt" && WT="$wt" GOVERTER_ROOT="$wt" bash "$dir/demo/run.sh" >/tmp/mv-demo0.log 2>&1); base=$?
  (cd "$wt" && git apply "$dir/patch.diff") || { echo "patch does not apply"; exit 2; }
  (cd "$wt" && go build ./... ) || { echo "BUILD-FAIL"; exit 1; }
  (cd "$wt" && go test -vet=off -count=1 ./... 2>&1 | grep -v 'no test files' | grep -v '^ok' ) && { echo "TESTS-FAIL"; exit 1; }
  (cd "$wt" && WT="$wt" GOVERTER_ROOT="$wt" bash "$dir/demo/run.sh" >/tmp/mv-demo1.log 2>&1); mut=$?
  echo "demo without change: rc=$base ; with change: rc=$mut"
  [ $base -eq 0 ] && [ $mut -ne 0 ] && echo "CONFIRMED" || { echo "NOT-CONFIRMED"; exit 1; }
  ;;
detect)
  git -C /repo diff --quiet || { echo "/repo has uncommitted changes"; exit 2; }
  git -C /repo apply "$dir/patch.diff" || { echo "patch does not apply to /repo"; exit 2; }
  trap 'git -C /repo checkout -- . ' EXIT
  cd /verif
  for id in "$@"; do
    out=$(VERIF_NOEVIDENCE=1 ./check "$id" --tier "${TIER:-quick}" 2>&1); rc=$?
    echo "$id rc=$rc :: $(echo "$out" | grep -E 'VIOLATION|INFRA|PASS|FAIL' | head -3 | tr '\n' ' ')"
  done
  ;;
esac
