"""./check selftest -- demonstrates that the specification is bound to the code (not part of any verdict):
  (1) a recorded hook-event trace of the real generator is accepted by Trace_Gen;
  (2) the same trace with ONE field of ONE event corrupted is rejected at that event;
  (3) the same trace with the events of one hook removed is rejected;
  (4) the observation records of the same run are accepted by Obs_Calls, and with ONE result token corrupted TLC reports a
      fingerprint for exactly that record.
Exit 0 when all four behave like that, 2 otherwise."""
import json
import os

import vlib
from vlib import Infra, log, read_ndjson


def run_selftest(run):
    run.build_harness()
    scen = os.path.join(run.scratch, "kscen.ndjson")
    out = run.tlc("Export_Calls", "INIT Init\nNEXT Next\nCONSTANTS\n  ScenOut = \"%s\"\n  Part = 3\n  Parts = 400\n  AllSuspects = FALSE\n  Fixed = TRUE\nCHECK_DEADLOCK FALSE\n" % scen,
                  workers=1, timeout=3000, role="export")
    if "exported" not in out:
        raise Infra("export failed:\n" + out[-2000:])
    # keep it small: the first 60 programs
    lines = open(scen).read().splitlines()[:60]
    open(scen, "w").write("\n".join(lines) + "\n")
    obs = os.path.join(run.scratch, "kobs.ndjson")
    trace = os.path.join(run.scratch, "ktrace.ndjson")
    run.harness(["calls", "-scen", scen, "-obs", obs, "-trace", trace, "-work", os.path.join(run.scratch, "wk"), "-maxins", "20"], timeout=3600)
    ok = True

    def expect(cond, what):
        nonlocal ok
        log("selftest %s: %s" % ("ok  " if cond else "FAIL", what))
        ok = ok and cond

    # (1) the genuine trace
    n = run.validate_trace("Trace_Gen", trace, invariants=["SigConsistentAtAppend"], properties=["ExplicitFrozen"], what="selftest genuine")
    events = [json.loads(l) for l in open(trace)]
    expect(n == len(events) and not run.drift, "genuine trace of %d events accepted" % len(events))
    # (2) one corrupted field: the sub-method decision of one gen.sub event is flipped
    idx = next((i for i, e in enumerate(events) if e.get("ev") == "gen.sub" and i > len(events) // 2), None)
    if idx is None:
        raise Infra("no gen.sub event in the trace")
    bad = [dict(e) for e in events]
    bad[idx]["create"] = not bad[idx].get("create", False)
    t2 = os.path.join(run.scratch, "ktrace-corrupt.ndjson")
    open(t2, "w").write("".join(json.dumps(e) + "\n" for e in bad))
    run.drift = []
    run.validate_trace("Trace_Gen", t2, invariants=["SigConsistentAtAppend"], properties=["ExplicitFrozen"], what="selftest corrupted")
    at = run.drift[0]["consumed_events"] if run.drift else -1
    expect(bool(run.drift) and abs(at - idx) <= 1, "trace with event %d corrupted (create flipped) rejected after %d events" % (idx + 1, at))
    # (3) one hook removed: all gen.lookup events
    t3 = os.path.join(run.scratch, "ktrace-nohook.ndjson")
    open(t3, "w").write("".join(json.dumps(e) + "\n" for e in events if e.get("ev") != "gen.lookup"))
    run.drift = []
    run.validate_trace("Trace_Gen", t3, invariants=["SigConsistentAtAppend"], properties=["ExplicitFrozen"], what="selftest hook removed")
    expect(bool(run.drift), "trace without the gen.lookup events rejected (after %d events)" % (run.drift[0]["consumed_events"] if run.drift else -1))
    run.drift = []
    # (4) observations
    run.fam = "calls"
    run.fps = []
    run.validate_obs("Obs_Calls", obs, constants="  Fixed = TRUE")
    genuine = [f for f in run.fps if f[0] in ("C06", "C07")]
    expect(not genuine, "genuine observation records accepted (C06/C07 fingerprints: %d)" % len(genuine))
    recs = list(read_ndjson(obs))
    j = next((i for i, r in enumerate(recs) if r.get("exec") and r.get("err") == "" and isinstance(r.get("out"), dict) and r["out"].get("k") == "st"), None)
    if j is None:
        raise Infra("no executed record to corrupt")

    def corrupt(v):
        if isinstance(v, dict):
            if v.get("k") == "b" and "tok" in v:
                v["tok"] = v["tok"] + "!"
                return True
            for x in v.values():
                if corrupt(x):
                    return True
        if isinstance(v, list):
            for x in v:
                if corrupt(x):
                    return True
        return False
    corrupt(recs[j]["out"])
    o2 = os.path.join(run.scratch, "kobs-corrupt.ndjson")
    open(o2, "w").write("".join(json.dumps(r) + "\n" for r in recs))
    run.fps = []
    run.validate_obs("Obs_Calls", o2, constants="  Fixed = TRUE")
    hit = [f for f in run.fps if f[0] == "C06"]
    expect(len(hit) == 1 and hit[0][3] == recs[j]["id"], "one corrupted result token reported for exactly that record (program %s): %s" % (recs[j]["id"], hit[:2]))
    log("SELFTEST %s" % ("PASSED" if ok else "FAILED"))
    return 0 if ok else 2
