#!/usr/bin/env python3
"""Re-run detection for every seeded change.  Each change is applied to a scratch git worktree of /repo under /tmp (never to
/repo itself); the quick check of the property it breaks (plus the extra checks named in EXTRA) runs against that tree through
VERIF_REPO; the worktree is removed; the result goes to seeded/<id>/meta.json and seeded/STATUS.md.

usage: lib/sweep_seeded.py [-j N] [<seeded id>...]"""
import concurrent.futures
import json
import os
import shutil
import subprocess
import sys
import tempfile
import time

VERIF = os.path.dirname(os.path.dirname(os.path.abspath(__file__)))
# changes that break a second property as well, or are observable only through another family
EXTRA = {"C01-no-truncate": ["C17"], "C01-global-ofile-first-only": ["C15"], "C10-zero-struct-sticky": ["C12"], "C18-fmt-when-wraperrors-off": ["C12"],
         "C09-cwd-not-abs": ["C15"], "C16-no-truncate": ["C17"],
         # round 2: the observable effect is (also) a fingerprint of another property
         "C06-regex-extend-loses-local-context": ["C14", "C19"], "C12-field-setting-on-non-struct-accepted": ["C05"],
         "C04-interface-passed-as-is": ["C03"], "C04-unexported-same-type-assigned": ["C03"],
         "C03-ignoremissing-swallows-ambiguous": ["C05"], "C03-ignoreunexported-only-inaccessible": ["C05"],
         "C10-return-nil-inside-source-nil-guard": ["C01"], "C02-array-target-without-length-check": ["C03"],
         "C18-array-target-fmt-panic": ["C03"], "C18-bytes-clone-helper-import": ["C02"],
         "C04-submethod-inherits-skipcopy": ["C12"], "C02-int-widening-ignores-sign": ["C03"], "C03-ci-field-hides-method": ["C05"],
         "C03-enum-float-undetected": ["C08"], "C10-update-target-after-source-in-arg-switch": ["C14"], "C01-output-package-name-sticky": ["C15"],
         "C07-explicit-callers-not-regenerated": ["C01"], "C06-error-retrofit-skips-callers": ["C01"], "C17-update-pointer-source-error-dropped": ["C03"],
         "C06-update-assign-skips-declared-method": ["C11"], "C02-map-path-nillable-unguarded": ["C05"], "C17-output-dir-single-level": ["C15"], "C02-index-names-reused-after-z": ["C01"], "C04-array-same-type-assigned": ["C03"], "C14-funcformat-custom-func-keeps-converter-role": ["C01"],
         "C03-field-settings-leak-nested": ["C05"], "C05-custom-pointer-source-replaces-mapped-field": ["C06"],
         "C06-local-context-cache-keyed-by-package-name": ["C14", "C19"], "C06-map-func-ignores-method-context-regex": ["C12"],
         "C10-sourceless-func-zero-check-nil-type": ["C13"], "C03-enum-stale-enabled": ["C12"], "C10-zero-literal-unsafe-pointer-as-number": ["C13"]}


def sh(cmd, **kw):
    return subprocess.run(cmd, shell=True, stdout=subprocess.PIPE, stderr=subprocess.STDOUT, text=True, **kw)


SNAP = None    # the checks run from a snapshot of /verif taken at start, so that work on /verif can go on meanwhile


def one(name):
    d = os.path.join(VERIF, "seeded", name)
    meta = json.load(open(os.path.join(d, "meta.json")))
    prop = meta["breaks_property"]
    if meta.get("superseded"):
        return (name, prop, "superseded", "")
    wt = tempfile.mkdtemp(prefix="sweep-wt-")
    os.rmdir(wt)
    if sh("git -C /repo worktree add -q --detach %s HEAD" % wt).returncode != 0:
        return (name, prop, "worktree failed", "")
    caught = []
    errors = []
    try:
        if sh("git -C %s apply %s/patch.diff" % (wt, d)).returncode != 0:
            return (name, prop, "patch does not apply any more", "")
        for chk in [prop] + EXTRA.get(name, []):
            t = time.time()
            r = sh("cd %s && VERIF_REPO=%s VERIF_NOEVIDENCE=1 ./check %s --tier quick" % (SNAP, wt, chk))
            if r.returncode == 1 and "VIOLATION property=%s" % chk in r.stdout:
                caught.append(chk)
            elif r.returncode != 0:
                # exit 2 (infrastructure) or a crash: not a detection result
                print(r.stdout[-1500:])
                errors.append(chk)
            print("%s %s rc=%d %.0fs" % (name, chk, r.returncode, time.time() - t), flush=True)
    finally:
        sh("git -C /repo worktree remove --force %s" % wt)
        shutil.rmtree(wt, ignore_errors=True)
    if errors and not caught:
        return (name, prop, "ERROR in " + ",".join(errors), "")
    meta["detected_now_by"] = caught
    meta["detection_run"] = time.strftime("%Y-%m-%d %H:%M")
    json.dump(meta, open(os.path.join(d, "meta.json"), "w"), indent=1)
    return (name, prop, ", ".join("./check " + c for c in caught) or "MISSED", meta.get("needs_to_manifest", ""))


def write_status():
    """seeded/STATUS.md from the detection results recorded in every meta.json"""
    rows = []
    for n in sorted(os.listdir(os.path.join(VERIF, "seeded"))):
        f = os.path.join(VERIF, "seeded", n, "meta.json")
        if not os.path.exists(f):
            continue
        m = json.load(open(f))
        got = m.get("detected_now_by")
        caught = "not run" if got is None else (", ".join("./check " + c for c in got) or "MISSED")
        if m.get("superseded"):
            caught += " (superseded: patch no longer applies)"
        rows.append((n, m["breaks_property"], caught, m.get("detection_run", ""), m.get("needs_to_manifest", "").replace("|", "\\|")))
    with open(os.path.join(VERIF, "seeded", "STATUS.md"), "w") as fh:
        fh.write("# Seeded changes and the quick checks that catch them (written by lib/sweep_seeded.py)\n\n"
                 "Each change was applied to a scratch worktree of /repo and the quick tier of the named checks was run against that tree (VERIF_REPO).\n\n"
                 "| seeded change | breaks | caught by | run | needs to manifest |\n|---|---|---|---|---|\n")
        for r in rows:
            fh.write("| %s | %s | %s | %s | %s |\n" % r)
        c = len([r for r in rows if "./check" in r[2]])
        fh.write("\n%d of %d caught.\n" % (c, len(rows)))


def main():
    args = sys.argv[1:]
    jobs = 1
    if args[:1] == ["-j"]:
        jobs, args = int(args[1]), args[2:]
    names = [n for n in sorted(os.listdir(os.path.join(VERIF, "seeded")))
             if os.path.isdir(os.path.join(VERIF, "seeded", n)) and (not args or n in args)]
    global SNAP
    top = tempfile.mkdtemp(prefix="sweep-snap-")
    SNAP = os.path.join(top, "verif")
    shutil.copytree(VERIF, SNAP, ignore=shutil.ignore_patterns(".git", "replays", "__pycache__"))
    try:
        with concurrent.futures.ThreadPoolExecutor(jobs) as ex:
            rows = list(ex.map(one, names))
    finally:
        shutil.rmtree(top, ignore_errors=True)
    write_status()
    for r in rows:
        print(r[0], "->", r[2])
    return 0


if __name__ == "__main__":
    sys.exit(main())
