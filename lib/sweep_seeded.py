#!/usr/bin/env python3
"""Re-run detection for every seeded change: apply seeded/<id>/patch.diff to /repo, run the quick check of the property it breaks
(plus the extra checks named in EXTRA), undo the patch, record the result in seeded/<id>/meta.json and seeded/STATUS.md.
Never run while another check is running (the patch is applied to /repo itself)."""
import json
import os
import subprocess
import sys
import time

VERIF = os.path.dirname(os.path.dirname(os.path.abspath(__file__)))
# changes that break a second property as well, or are observable only through another family
EXTRA = {"C01-no-truncate": ["C17"], "C01-global-ofile-first-only": ["C15"], "C10-zero-struct-sticky": ["C12"], "C18-fmt-when-wraperrors-off": ["C12"],
         "C09-cwd-not-abs": ["C15"], "C16-no-truncate": ["C17"]}


def sh(cmd, **kw):
    return subprocess.run(cmd, shell=True, stdout=subprocess.PIPE, stderr=subprocess.STDOUT, text=True, **kw)


def main():
    only = sys.argv[1:]
    rows = []
    for name in sorted(os.listdir(os.path.join(VERIF, "seeded"))):
        d = os.path.join(VERIF, "seeded", name)
        if not os.path.isdir(d) or (only and name not in only):
            continue
        meta = json.load(open(os.path.join(d, "meta.json")))
        prop = meta["breaks_property"]
        if sh("git -C /repo diff --quiet").returncode != 0:
            print("/repo has uncommitted changes")
            return 2
        if sh("git -C /repo apply %s/patch.diff" % d).returncode != 0:
            rows.append((name, prop, "patch does not apply any more", ""))
            continue
        caught = []
        try:
            for chk in [prop] + EXTRA.get(name, []):
                t = time.time()
                r = sh("cd %s && VERIF_NOEVIDENCE=1 ./check %s --tier quick" % (VERIF, chk))
                out = r.stdout
                if r.returncode == 1 and "VIOLATION property=%s" % chk in out:
                    caught.append(chk)
                print("%s %s rc=%d %.0fs" % (name, chk, r.returncode, time.time() - t), flush=True)
        finally:
            sh("git -C /repo checkout -- .")
        meta["detected_now_by"] = caught
        meta["detection_run"] = time.strftime("%Y-%m-%d %H:%M")
        json.dump(meta, open(os.path.join(d, "meta.json"), "w"), indent=1)
        rows.append((name, prop, ", ".join("./check " + c for c in caught) or "MISSED", meta.get("needs_to_manifest", "")))
    with open(os.path.join(VERIF, "seeded", "STATUS.md"), "w") as fh:
        fh.write("# Seeded changes and the quick checks that catch them (written by lib/sweep_seeded.py)\n\n| seeded change | breaks | caught by | needs to manifest |\n|---|---|---|---|\n")
        for r in rows:
            fh.write("| %s | %s | %s | %s |\n" % r)
        n = len(rows)
        c = len([r for r in rows if r[2] != "MISSED" and not r[2].startswith("patch")])
        fh.write("\n%d of %d caught.\n" % (c, n))
    print("%d of %d caught" % (c, n))
    return 0


if __name__ == "__main__":
    sys.exit(main())
