"""Shared machinery of the goverter verification checks.

Roles (DESIGN.md section 0):  A  = TLC model-checks the bounded specification and exports scenarios,
B1 = the Go harness replays them into the real goverter / generated code and TLC validates the
observation records against the declarative predicates (only this yields VIOLATION / KNOWN-FINDING),
B2 = TLC validates traces recorded by the verif hooks against the operational model (MODEL-DRIFT).

Exit codes: 0 property held on everything explored (known findings are printed), 1 violation,
2 infrastructure problem (build failure, TLC error/time-out, dead driver) -- never a verdict.
"""
import hashlib
import json
import os
import re
import shutil
import subprocess
import sys
import tempfile
import time

VERIF = os.path.dirname(os.path.dirname(os.path.abspath(__file__)))
REPO = os.environ.get("VERIF_REPO", "/repo")
SPEC = os.path.join(VERIF, "spec")
HARNESS = os.path.join(VERIF, "harness")
KNOWN = os.path.join(VERIF, "known_findings.txt")

GOENV = dict(os.environ, GOFLAGS="-mod=mod", GOPROXY="off", GOSUMDB="off", GOTOOLCHAIN="local", GO111MODULE="on")


class Infra(Exception):
    """An infrastructure failure: exit 2, never a verdict."""


def log(*a):
    print(*a, flush=True)


class Run:
    def __init__(self, prop, tier, seed, replay=None):
        self.prop, self.tier, self.seed, self.replay = prop, tier, seed, replay
        self.t0 = time.time()
        # the per-scenario driver programs fill Go's build cache quickly (measured: 130 GB over a day): drop it when the disk gets short
        try:
            if shutil.disk_usage(os.path.expanduser("~")).free < 30 * 2 ** 30:
                subprocess.run(["go", "clean", "-cache"], env=GOENV, stdout=subprocess.DEVNULL, stderr=subprocess.DEVNULL, timeout=3600)
        except Exception:
            pass
        base = os.environ.get("VERIF_SCRATCH") or tempfile.gettempdir()
        self.scratch = tempfile.mkdtemp(prefix="vf-%s-" % prop, dir=base)
        self.tlc_runs = []          # statistics of every TLC invocation
        self.states = 0             # role A distinct states
        self.transitions = 0        # role A states generated
        self.validated = 0          # observation records + trace events validated by TLC against the implementation
        self.samples = []
        self.extra = {}
        self.drift = []
        self.fps = []               # (prop, class, cause, id)
        self.assumptions = []
        self.vh = None
        self.fam = ""             # family tag attached to fingerprints found by validate_obs
        self.scen_files = {}        # family -> scenario file (for replay bundles)

    # ------------------------------------------------------------------ builds
    def build_harness(self):
        """Build the harness (and with it the goverter packages) from /repo's working tree with -tags verif."""
        if self.vh:
            return self.vh
        t = time.time()
        hdir = HARNESS
        if REPO != "/repo":
            # another tree of goverter (scratch worktrees used to try seeded changes): build a private copy of the harness against it
            hdir = os.path.join(self.scratch, "harness-src")
            shutil.copytree(HARNESS, hdir)
            gm = open(os.path.join(hdir, "go.mod")).read().replace("=> /repo", "=> " + REPO)
            open(os.path.join(hdir, "go.mod"), "w").write(gm)
        shutil.copyfile(os.path.join(REPO, "go.sum"), os.path.join(hdir, "go.sum"))
        out = os.path.join(self.scratch, "vh")
        p = subprocess.run(["go", "build", "-tags", "verif", "-o", out, "./cmd/vh"], cwd=hdir, env=GOENV,
                           stdout=subprocess.PIPE, stderr=subprocess.STDOUT, text=True)
        if p.returncode != 0:
            raise Infra("harness/goverter build failed:\n" + p.stdout[-4000:])
        self.vh = out
        self.extra["build_s"] = round(time.time() - t, 2)
        return out

    def build_cli(self):
        out = os.path.join(self.scratch, "goverter")
        p = subprocess.run(["go", "build", "-tags", "verif", "-o", out, "./cmd/goverter"], cwd=REPO, env=GOENV,
                           stdout=subprocess.PIPE, stderr=subprocess.STDOUT, text=True)
        if p.returncode != 0:
            raise Infra("goverter CLI build failed:\n" + p.stdout[-4000:])
        return out

    # ------------------------------------------------------------------ TLC
    def tlc(self, module, cfg, workers=16, timeout=900, role="A", simulate=None, extra_args=()):
        """Run TLC on spec/<module>.tla with the given cfg text in a private directory. Returns its output."""
        d = tempfile.mkdtemp(prefix="tlc-%s-" % module, dir=self.scratch)
        for f in os.listdir(SPEC):
            if f.endswith(".tla"):
                shutil.copyfile(os.path.join(SPEC, f), os.path.join(d, f))
        with open(os.path.join(d, module + ".cfg"), "w") as fh:
            fh.write(cfg)
        cmd = ["timeout", str(timeout), "tlc", "-workers", str(workers), "-metadir", os.path.join(d, "meta"),
               "-config", module + ".cfg"]
        if simulate:
            cmd += ["-simulate", simulate]
        cmd += list(extra_args) + [module + ".tla"]
        env = dict(os.environ)
        env["JAVA_TOOL_OPTIONS"] = (env.get("JAVA_TOOL_OPTIONS", "") + " -Xss512m").strip()
        t = time.time()
        p = subprocess.run(cmd, cwd=d, env=env, stdout=subprocess.PIPE, stderr=subprocess.STDOUT, text=True)
        out = p.stdout
        dt = time.time() - t
        m = re.search(r"(\d+) states generated, (\d+) distinct states found", out)
        gen, dist = (int(m.group(1)), int(m.group(2))) if m else (0, 0)
        st = {"module": module, "role": role, "generated": gen, "distinct": dist, "wall_s": round(dt, 2), "rc": p.returncode}
        self.tlc_runs.append(st)
        if p.returncode == 124:
            raise Infra("TLC timed out on %s after %ss" % (module, timeout))
        if "Error: " in out and "Invariant" not in out and "is violated" not in out:
            # parse / semantic / evaluation errors (StackOverflow included) are infrastructure problems
            if re.search(r"(Parsing or semantic analysis failed|StackOverflowError|OutOfMemoryError|Error: .*evaluat|TLC threw an unexpected exception|was not in the domain|Attempted to)", out):
                raise Infra("TLC error in %s:\n%s" % (module, out[-3000:]))
        if role == "A":
            self.states += dist
            self.transitions += gen
        shutil.rmtree(os.path.join(d, "meta"), ignore_errors=True)
        return out

    def tlc_violation(self, out):
        m = re.search(r"Invariant (\w+) is violated", out)
        if m:
            return m.group(1)
        m = re.search(r"Action property (\w+) is violated|Temporal properties were violated", out)
        if m:
            return m.group(1) or "temporal"
        return None

    def model_check(self, module, cfg, **kw):
        """Role A: any invariant violation of the design-level model on the unchanged tree is an infrastructure
        matter here (the model's known deviations are encoded in the invariants)."""
        out = self.tlc(module, cfg, role="A", **kw)
        v = self.tlc_violation(out)
        if v:
            raise Infra("role A: model invariant %s violated in %s -- the specification disagrees with itself:\n%s" % (v, module, out[-3000:]))
        if "Model checking completed" not in out and "Finished" not in out:
            raise Infra("TLC did not complete on %s:\n%s" % (module, out[-3000:]))
        return out

    FP = re.compile(r'^"?FP\|(C\d+)\|([^|]*)\|([^|]*)\|(-?\d+)"?$')

    def validate_obs(self, module, obsfile, constants="", workers=1, timeout=1800, chunk=20000):
        """Role B1: TLC evaluates the declarative predicates on every observation record."""
        n = 0
        chunks = []
        with open(obsfile) as fh:
            lines = fh.readlines()
        for i in range(0, max(len(lines), 1), chunk):
            part = os.path.join(self.scratch, "obs-%s-%d.ndjson" % (module, i // chunk))
            with open(part, "w") as fh:
                fh.writelines(lines[i:i + chunk])
            chunks.append((part, len(lines[i:i + chunk])))
        import concurrent.futures as cf

        def one(pc):
            part, cnt = pc
            cfg = "INIT Init\nNEXT Next\nCONSTANTS\n  ObsFile = \"%s\"\n%s\nINVARIANT Report\nCHECK_DEADLOCK FALSE\n" % (part, constants)
            return part, cnt, self.tlc(module, cfg, workers=workers, timeout=timeout, role="B1")
        with cf.ThreadPoolExecutor(max_workers=6) as ex:
            results = list(ex.map(one, [pc for pc in chunks if pc[1] > 0]))
        for part, cnt, out in results:
            m = re.search(r'SUMMARY\|(\d+)', out)
            if not m or int(m.group(1)) != cnt:
                raise Infra("B1 validation of %s did not consume all %d records:\n%s" % (part, cnt, out[-3000:]))
            n += cnt
            for line in out.splitlines():
                m = self.FP.match(line.strip())
                if m:
                    self.fps.append((m.group(1), m.group(2), m.group(3), int(m.group(4)), self.fam))
        self.validated += n
        return n

    def validate_trace(self, module, tracefile, invariants=(), properties=(), timeout=1800, what=""):
        """Role B2: the recorded events must be a behaviour of the operational model; every invariant is evaluated on
        every step. Rejection = MODEL-DRIFT (reported and written into the evidence, not a verdict)."""
        with open(tracefile) as fh:
            lines = fh.readlines()
        n = len(lines)
        if n == 0:
            return 0
        cfg = "INIT Init\nNEXT Next\nCONSTANTS\n  TraceFile = \"%s\"\n" % tracefile
        for inv in invariants:
            cfg += "INVARIANT %s\n" % inv
        for pr in properties:
            cfg += "PROPERTY %s\n" % pr
        cfg += "POSTCONDITION Accepted\nCHECK_DEADLOCK FALSE\n"
        out = self.tlc(module, cfg, workers=1, timeout=timeout, role="B2")
        m = re.search(r'STUCK\|(\d+)', out)
        v = self.tlc_violation(out)
        if m or v:
            at = int(m.group(1)) if m else -1
            ev = lines[at - 1].strip()[:600] if 0 < at <= n else ""
            self.drift.append({"module": module, "trace": what, "consumed_events": at - 1, "next_event": ev, "violated": v})
            log("MODEL-DRIFT module=%s trace=%s consumed=%d violated=%s next=%s" % (module, what, at - 1, v, ev[:200]))
            return 0
        if "Model checking completed" not in out:
            raise Infra("trace validation did not complete:\n" + out[-3000:])
        self.validated += n
        self.extra.setdefault("trace_events_accepted", {})[what or module] = n
        return n

    # ------------------------------------------------------------------ harness
    def harness(self, args, timeout=1800):
        if not self.vh:
            self.build_harness()
        t = time.time()
        try:
            p = subprocess.run([self.vh] + args, env=GOENV, stdout=subprocess.PIPE, stderr=subprocess.PIPE, text=True, timeout=timeout)
        except subprocess.TimeoutExpired:
            raise Infra("harness timed out: vh %s" % " ".join(args))
        if p.returncode != 0:
            raise Infra("harness failed (rc %d): vh %s\n%s\n%s" % (p.returncode, " ".join(args), p.stdout[-2000:], p.stderr[-4000:]))
        m = re.search(r"HARNESS-SUMMARY (\{.*\})", p.stdout)
        summ = json.loads(m.group(1)) if m else {}
        summ["wall_s"] = round(time.time() - t, 2)
        self.extra.setdefault("harness", []).append(summ)
        return summ

    # ------------------------------------------------------------------ verdict
    def known(self):
        ks = []
        if os.path.exists(KNOWN):
            for line in open(KNOWN):
                line = line.strip()
                m = re.match(r"known: property=(C\d+) class=(\S+) cause=(\S*) :: (.*)$", line)
                if m:
                    ks.append(m.groups())
        return ks

    def finish(self, rule, evaluations, distinct_nontrivial, exhaustive=True, replay_writer=None):
        """Classify fingerprints of this property, write evidence, print the verdict lines, return the exit code."""
        mine = [f for f in self.fps if f[0] == self.prop]
        others = sorted({(f[0], f[1], f[2]) for f in self.fps if f[0] != self.prop})
        known = self.known()
        groups = {}
        for f in mine:
            groups.setdefault((f[1], f[2]), []).append((f[4], f[3]))
        violations = 0
        known_hits = []
        for (cls, cause), ids in sorted(groups.items()):
            k = [x for x in known if x[0] == self.prop and x[1] == cls and x[2] == cause]
            if k:
                known_hits.append({"class": cls, "cause": cause, "count": len(ids), "what": k[0][3]})
                log("KNOWN-FINDING: property=%s class=%s cause=%s occurrences=%d %s" % (self.prop, cls, cause, len(ids), k[0][3]))
                continue
            violations += 1
            path = self.write_replay(cls, cause, ids)
            log("VIOLATION property=%s replay=%s" % (self.prop, path))
            log("  class=%s cause=%s occurrences=%d first=%s" % (cls, cause, len(ids), ids[:5]))
        ev = {
            "property_id": self.prop, "tier": self.tier, "seed": self.seed, "level": "model_checking",
            "coverage": {
                "states": self.states, "transitions": self.transitions,
                "traces_validated_against_impl": self.validated,
                "samples": self.samples[:6] or ["(no sample recorded)"],
                "evaluations": evaluations, "distinct_nontrivial": distinct_nontrivial, "rule": rule,
                "exhaustive": exhaustive,
                "tlc_runs": self.tlc_runs, "model_drift": self.drift, "known_findings_seen": known_hits,
                "fingerprints_of_other_properties_in_this_run": [list(o) for o in others],
            },
            "assumptions": self.assumptions,
            "wall_s": round(time.time() - self.t0, 2),
            "violations": violations,
        }
        ev["coverage"].update(self.extra)
        if not self.replay and not os.environ.get("VERIF_NOEVIDENCE"):
            os.makedirs(os.path.join(VERIF, "evidence"), exist_ok=True)
            with open(os.path.join(VERIF, "evidence", self.prop + ".json"), "w") as fh:
                json.dump(ev, fh, indent=1, sort_keys=True, default=str)
        log("%s %s tier=%s seed=%d states=%d validated=%d evaluations=%d distinct=%d wall=%.1fs" % (
            "FAIL" if violations else "PASS", self.prop, self.tier, self.seed, self.states, self.validated, evaluations, distinct_nontrivial, time.time() - self.t0))
        return 1 if violations else 0

    def write_replay(self, cls, cause, ids):
        h = hashlib.sha1(("%s|%s|%s|%s" % (self.prop, cls, cause, ids[:3])).encode()).hexdigest()[:12]
        # trial runs against scratch trees (seeded changes) keep their bundles out of /verif
        root = os.path.join(tempfile.gettempdir(), "verif-trial-replays") if os.environ.get("VERIF_NOEVIDENCE") else os.path.join(VERIF, "replays")
        d = os.path.join(root, self.prop, h)
        os.makedirs(d, exist_ok=True)
        meta = {"property": self.prop, "class": cls, "cause": cause, "ids": ids[:50], "tier": self.tier, "seed": self.seed}
        with open(os.path.join(d, "meta.json"), "w") as fh:
            json.dump(meta, fh, indent=1)
        # the scenarios of the first offending records, per family, so that --replay can re-run exactly them
        for fam, scen in self.scen_files.items():
            want = sorted({i for (f, i) in ids[:50] if f == fam})
            if not want or not os.path.exists(scen):
                continue
            wset = set(want)
            with open(os.path.join(d, "scen-%s.ndjson" % fam), "w") as out:
                for i, line in enumerate(open(scen)):
                    if i in wset:
                        out.write(line)
        with open(os.path.join(d, "replay.sh"), "w") as fh:
            fh.write("#!/bin/sh\ncd %s && exec ./check %s --replay %s\n" % (VERIF, self.prop, d))
        os.chmod(os.path.join(d, "replay.sh"), 0o755)
        return d

    def cleanup(self):
        shutil.rmtree(self.scratch, ignore_errors=True)


def read_ndjson(path):
    if not path or not os.path.exists(path):
        return        # a replay bundle holds the scenarios of the offending families only
    with open(path) as fh:
        for line in fh:
            line = line.strip()
            if line:
                yield json.loads(line)


def main(checks):
    """checks: {property id: function(run) -> exit code}"""
    import argparse
    ap = argparse.ArgumentParser()
    ap.add_argument("prop")
    ap.add_argument("--tier", default=os.environ.get("VERIF_TIER", "quick"))
    ap.add_argument("--replay", default=None)
    a = ap.parse_args()
    seed = int(os.environ.get("VERIF_SEED", "1") or 1)
    if a.prop not in checks:
        log("unknown property/check %s" % a.prop)
        return 2
    run = Run(a.prop, a.tier, seed, a.replay)
    try:
        rc = checks[a.prop](run)
    except Infra as e:
        log("INFRA-ERROR %s: %s" % (a.prop, e))
        rc = 2
    finally:
        if not os.environ.get("VERIF_KEEP"):
            run.cleanup()
        else:
            log("scratch kept at", run.scratch)
    return rc
