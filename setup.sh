#!/bin/sh
# Build the framework from files on disk only (offline).
set -e
export GOFLAGS=-mod=mod GOPROXY=off GOSUMDB=off GOTOOLCHAIN=local GO111MODULE=on
cd /verif/harness
cp /repo/go.sum go.sum
mkdir -p /verif/.build
go build -tags verif -o /verif/.build/vh ./cmd/vh
tla-sany /verif/spec/MC_Rules.tla >/dev/null 2>&1 || true
echo "setup ok"
