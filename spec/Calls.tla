------------------------------- MODULE Calls -------------------------------
(* L2: the generator's method index and fix-point protocol with the descent made deterministic (GenDescent of
   DESIGN.md section 5.5), for the F-Calls family: named, possibly recursive struct types A, B (targets A2, B2)
   whose fields are int->int, int->string (only possible through the extend function E), pointers and slices
   of A / B, or B by value; a declared root method Conv(A) A2 with or without error result and context
   parameter; E with or without error result and context parameter.

   Structured after generator/generator.go:
     BuildTop      buildMethod: the top level of a method applies the rule chain directly
     Conv          Build/Assign: extend lookup, method lookup (both under the available context types),
                   shouldCreateSubMethod (named types, pointer-variant exception, `seen` rule), createSubMethod
     CallM         CallMethod: context arguments by requireContext, error result by ReturnError
     NeedErr/NeedCtx  the retrofits along self + creator chain (OriginPath); explicit methods refuse
     SweepFrom/Generate  buildDirtyMethods / buildMethods: sweeps until nothing is dirty

   Fixed = FALSE models the pinned behaviour (named deviation DevCreatorChainOnly): a retrofit marks only the
   creator chain, so a method that reaches the retrofitted one through a lookup hit keeps a stale call
   (wrong number of results / arguments: the output does not compile), and a generated method is rebuilt
   under its own context set.  Fixed = TRUE models the repaired generator: callers are recorded and marked
   dirty when a signature changes, generated methods are rebuilt under the availability of their creation.
   Constant-level module.                                                                                  *)
EXTENDS Integers, Sequences, FiniteSets, TLC

CONSTANT Fixed

B(k) == [k |-> "basic", b |-> k]
N(id) == [k |-> "named", id |-> id]
P(t) == [k |-> "ptr", e |-> t]
S(t) == [k |-> "slice", e |-> t]
M(kt, t) == [k |-> "map", key |-> kt, e |-> t]
\* a named type whose underlying type is not a struct (type NI int, type LP []*int)
NN(id, u) == [k |-> "nn", id |-> id, u |-> u]
INT == B("int")
STR == B("string")

FieldKinds(self) == {"i2i", "i2s", "ptrA", "ptrB", "slcA", "slcB"} \cup (IF self = "A" THEN {"valB"} ELSE {})
\* further kinds (second program set): string -> string, and maps with a named-struct value, a converted key, a converted value
\* ... and *B -> B2, *int -> string through E (SourcePointer, needs useZeroValueOnPointerInconsistency: the harness sets it for these programs)
\* ... and a target field int matched with a source *method* F() int / F() (int, error) (fallible iff extErr)
\* ... int -> *string through E (a value source with a pointer target)
\* ... pointer to int -> pointer to string (a pointer pair built inline), and a map whose values are slices of int -> string
MoreKinds == {"s2s", "mapB", "mapK", "mapV", "mapKV", "p2vB", "p2s", "mth", "i2ps", "pp2s", "mapVS"}
\* third program set (useUnderlyingTypeMethods): NI (named int) -> string through E on the underlying type; LP (named []*int) -> []int
\* through the declared method ConvL(source []*int) []int, the only method with useZeroValueOnPointerInconsistency
UnderKinds == {"nI2s", "nL"}
SrcT(fk) == CASE fk \in {"i2i", "i2s", "i2ps"} -> INT
              [] fk = "s2s" -> STR [] fk \in {"p2s", "pp2s"} -> P(INT) [] fk = "mapVS" -> M(STR, S(INT)) [] fk = "mth" -> [k |-> "meth", b |-> "int"]
              [] fk = "nI2s" -> NN("NI", INT) [] fk = "nL" -> NN("LP", S(P(INT)))
              [] fk = "mapB" -> M(STR, N("B")) [] fk \in {"mapK", "mapKV"} -> M(INT, INT) [] fk = "mapV" -> M(STR, INT)
              [] fk = "ptrA" -> P(N("A")) [] fk \in {"ptrB", "p2vB"} -> P(N("B"))
              [] fk = "slcA" -> S(N("A")) [] fk = "slcB" -> S(N("B"))
              [] fk = "valB" -> N("B")
TgtT(fk) == CASE fk \in {"i2i", "mth"} -> INT [] fk = "i2s" -> STR
              [] fk \in {"s2s", "p2s", "nI2s"} -> STR [] fk = "nL" -> S(INT) [] fk \in {"i2ps", "pp2s"} -> P(STR) [] fk = "mapVS" -> M(STR, S(STR))
              [] fk = "mapB" -> M(STR, N("B2")) [] fk = "mapK" -> M(STR, INT) [] fk \in {"mapV", "mapKV"} -> M(STR, STR)
              [] fk = "ptrA" -> P(N("A2")) [] fk = "ptrB" -> P(N("B2"))
              [] fk = "slcA" -> S(N("A2")) [] fk = "slcB" -> S(N("B2"))
              [] fk \in {"valB", "p2vB"} -> N("B2")
FieldNames == <<"F", "G">>
Shapes(self) == {<<a>> : a \in FieldKinds(self)} \cup {<<a, b>> : a \in FieldKinds(self), b \in FieldKinds(self)}
\* H{F *B} -> H2{F *B2}: the struct pair of a further declared method Tail(source H) H2 *without* error result and context
\* (programs with declH): it reaches the conversions of B through lookups of helpers that other methods created
FieldsOf(shape, id) ==
  IF id \in {"H", "H2"} THEN <<[n |-> "F", t |-> P(N(IF id = "H" THEN "B" ELSE "B2"))]>> ELSE
  LET base == IF id \in {"A", "A2"} THEN shape.A ELSE shape.B
      tgt == id \in {"A2", "B2"}
  IN [i \in DOMAIN base |-> [n |-> FieldNames[i], t |-> IF tgt THEN TgtT(base[i]) ELSE SrcT(base[i])]]

\* prog == [shape |-> [A, B], rootErr, extErr, rootCtx, extCtx, extId, wrap]
\*   extId: a second extend function Canon(string) string on the *identical* basic pair; wrap: "none" | "using" (wrapErrorsUsing)
RootSrc == N("A")
RootTgt == N("A2")
ExtFn(prog, s, t) == IF s = INT /\ t = STR THEN "E" ELSE IF prog.extId /\ s = STR /\ t = STR THEN "C" ELSE ""
HasExt(prog, s, t) == ExtFn(prog, s, t) # ""

(* Named deviations of the protocol, used to *select* programs for replay: a program on which a deviant protocol ends differently
   from the specified one is a program on which such a slip in the implementation becomes visible.
     availcreator   a generated method is rebuilt under the (current) context set of its creator instead of the availability at
                    its creation                                                                                                   *)
Dev(prog) == IF "dev" \in DOMAIN prog THEN prog.dev ELSE ""
NoBody == [k |-> "none"]
NewMethod(s, t, explicit, retErr, ctx, origin, avail) ==
  [src |-> s, tgt |-> t, explicit |-> explicit, retErr |-> retErr, ctx |-> ctx, dirty |-> explicit, origin |-> origin,
   body |-> NoBody, callers |-> {}, avail |-> avail, zero |-> FALSE]
\* useZeroValueOnPointerInconsistency in effect for a method: the converter's value for the root, ConvB and generated methods
WithZero(rec, z) == [rec EXCEPT !.zero = z]
ZeroConv(prog) == \E id \in {"A", "B"} : \E i \in DOMAIN prog.shape[id] : prog.shape[id][i] \in {"p2vB", "p2s"}


\* Index.Get: the first registered entry whose context set is available; entries exist but none fits => error
Hits(ms, s, t) == {i \in DOMAIN ms : ms[i].src = s /\ ms[i].tgt = t}
Lookup(ms, s, t, avail) ==
  LET hits == Hits(ms, s, t) ok == {i \in hits : ms[i].ctx => avail} IN
  IF hits = {} THEN 0 ELSE IF ok = {} THEN -1 ELSE CHOOSE i \in ok : \A j \in ok : i <= j

\* hasMethod: an extend function or a registered method for exactly this pair, whatever its contexts
HasM(prog, ms, s, t) == HasExt(prog, s, t) \/ Hits(ms, s, t) # {}

\* signatureChanged (Fixed): the method and every recorded caller must be rebuilt
Touch(st, p) == IF Fixed THEN [st EXCEPT !.ms = [i \in DOMAIN st.ms |-> IF i = p \/ i \in st.ms[p].callers THEN [st.ms[i] EXCEPT !.dirty = TRUE] ELSE st.ms[i]]]
                ELSE [st EXCEPT !.ms[p].dirty = TRUE]

RECURSIVE MarkErr(_,_), MarkCtx(_,_)
MarkErr(st, path) ==
  IF path = <<>> \/ st.fail # "" THEN st
  ELSE LET p == Head(path) IN
       IF st.ms[p].retErr THEN MarkErr(st, Tail(path))
       ELSE IF st.ms[p].explicit THEN [st EXCEPT !.fail = "no-error-result"]
       ELSE MarkErr(Touch([st EXCEPT !.ms[p].retErr = TRUE], p), Tail(path))
NeedErr(st, m) == IF st.ms[m].retErr THEN st ELSE MarkErr(st, <<m>> \o st.ms[m].origin)
MarkCtx(st, path) ==
  IF path = <<>> \/ st.fail # "" THEN st
  ELSE LET p == Head(path) IN
       IF st.ms[p].ctx THEN MarkCtx(st, Tail(path))
       ELSE IF st.ms[p].explicit THEN [st EXCEPT !.fail = "context-missing"]
       ELSE MarkCtx(Touch([st EXCEPT !.ms[p].ctx = TRUE], p), Tail(path))
\* requireContext: inScope = the method had the context argument when this build started
NeedCtx(st, m, inScope) == IF inScope THEN st ELSE MarkCtx(st, <<m>> \o st.ms[m].origin)

Fail(st, why) == [st |-> [st EXCEPT !.fail = why], seen |-> {}, ir |-> NoBody]
IsStructT(t) == t.k = "named"

RECURSIVE Conv(_,_,_,_,_,_,_,_), Rule(_,_,_,_,_,_,_,_), FieldsLoop(_,_,_,_,_,_,_,_,_,_), BuildTop(_,_,_,_)

\* CallMethod on a generated/declared method i from method m
CallM(st, m, seen, i, inScope) ==
  LET st0 == IF Fixed THEN [st EXCEPT !.ms[i].callers = @ \cup {m}] ELSE st
      st1 == IF st0.ms[i].ctx THEN NeedCtx(st0, m, inScope) ELSE st0
      ir == [k |-> "call", callee |-> i, assumedErr |-> st0.ms[i].retErr, assumedCtx |-> st0.ms[i].ctx, passCtx |-> st0.ms[i].ctx /\ inScope]
      st2 == IF st1.fail = "" /\ st1.ms[i].retErr THEN NeedErr(st1, m) ELSE st1
  IN [st |-> st2, seen |-> seen, ir |-> ir]

\* av = [avail: a context value can be obtained, inScope: the current method has the argument in this build]
Conv(prog, st, m, seen, s, t, av, top) ==
  IF st.fail # "" THEN [st |-> st, seen |-> seen, ir |-> NoBody]
  ELSE IF ExtFn(prog, s, t) = "C" THEN
    [st |-> st, seen |-> seen, ir |-> [k |-> "ext", fn |-> "C", retErr |-> FALSE, passCtx |-> FALSE, needCtx |-> FALSE]]
  ELSE IF HasExt(prog, s, t) THEN
    (IF prog.extCtx /\ ~av.avail THEN Fail(st, "context-unavailable")
     ELSE LET st1 == IF prog.extCtx THEN NeedCtx(st, m, av.inScope) ELSE st
              st2 == IF st1.fail = "" /\ prog.extErr THEN NeedErr(st1, m) ELSE st1
          IN [st |-> st2, seen |-> seen, ir |-> [k |-> "ext", fn |-> "E", retErr |-> prog.extErr, passCtx |-> prog.extCtx /\ av.inScope, needCtx |-> prog.extCtx]])
  ELSE LET hit == Lookup(st.ms, s, t, av.avail) IN
    IF hit = -1 THEN Fail(st, "context-unavailable")
    ELSE IF hit # 0 THEN CallM(st, m, seen, hit, av.inScope)
    ELSE
      LET seenHit == s.k \in {"named", "nn"} /\ s.id \in seen
          curPtrStruct == IsStructT(s) /\ IsStructT(t) /\ (st.ms[m].src = P(s) \/ st.ms[m].tgt = P(t))
          create == IF seenHit THEN TRUE
                    ELSE IF ~curPtrStruct THEN (s.k = "named" \/ t.k = "named" \/ (s.k = "ptr" /\ s.e.k = "named") \/ (s.k = "nn" /\ s.u.k # "basic"))
                    ELSE FALSE
          st1 == IF seenHit THEN [st EXCEPT !.ms[m].dirty = TRUE] ELSE st
          seen1 == IF s.k \in {"named", "nn"} THEN seen \cup {s.id} ELSE seen
      IN IF create THEN
           LET j == Len(st1.ms) + 1
               st2 == [st1 EXCEPT !.ms = Append(@, WithZero(NewMethod(s, t, FALSE, FALSE, FALSE, <<m>> \o st1.ms[m].origin, av.avail), ZeroConv(prog)))]
               st3 == BuildTop(prog, st2, j, av.avail)
           IN IF st3.fail # "" THEN [st |-> st3, seen |-> seen1, ir |-> NoBody] ELSE CallM(st3, m, seen1, j, av.inScope)
         ELSE Rule(prog, st1, m, seen1, s, t, av, FALSE)

Rule(prog, st, m, seen, s, t, av, top) ==
  IF s.k = "nn" THEN
     \* UseUnderlyingTypeMethods comes first in the chain: with the setting, and a function or method for (underlying, target),
     \* the source is cast and that conversion is built; otherwise the rules apply to the named type as to its underlying type
     (IF prog.under /\ HasM(prog, st.ms, s.u, t)
      THEN LET r == Conv(prog, st, m, seen, s.u, t, av, FALSE) IN [r EXCEPT !.ir = [k |-> "cast", x |-> r.ir]]
      ELSE Rule(prog, st, m, seen, s.u, t, av, top))
  ELSE IF s.k = "ptr" /\ t.k = "ptr" THEN
     LET r == Conv(prog, st, m, seen, s.e, t.e, av, FALSE) IN [r EXCEPT !.ir = [k |-> "ptrptr", x |-> r.ir]]
  ELSE IF s.k = "ptr" /\ t.k # "ptr" /\ ~st.ms[m].zero THEN Fail(st, "pointer-inconsistency")
  ELSE IF s.k = "ptr" /\ t.k # "ptr" THEN                                  \* SourcePointer: nil gives the zero value of the target
     LET r == Conv(prog, st, m, seen, s.e, t, av, FALSE) IN [r EXCEPT !.ir = [k |-> "srcptr", x |-> r.ir, t |-> t]]
  ELSE IF s.k # "ptr" /\ t.k = "ptr" THEN
     LET r == Conv(prog, st, m, seen, s, t.e, av, FALSE) IN [r EXCEPT !.ir = [k |-> "valptr", x |-> r.ir]]
  ELSE IF s.k = "basic" /\ t.k = "basic" /\ s.b = t.b THEN [st |-> st, seen |-> seen, ir |-> [k |-> "copy"]]
  ELSE IF s.k = "named" /\ t.k = "named" THEN
     FieldsLoop(prog, st, m, seen, FieldsOf(prog.shape, s.id), FieldsOf(prog.shape, t.id), 1, <<>>, av, top)
  ELSE IF s.k = "slice" /\ t.k = "slice" THEN
     LET r == Conv(prog, st, m, seen, s.e, t.e, av, FALSE) IN [r EXCEPT !.ir = [k |-> "slice", x |-> r.ir]]
  ELSE IF s.k = "map" /\ t.k = "map" THEN                                  \* Map.Assign: the key is built first, then the value
     LET rk == Conv(prog, st, m, seen, s.key, t.key, av, FALSE)
         rv == Conv(prog, rk.st, m, rk.seen, s.e, t.e, av, FALSE)
     IN [rv EXCEPT !.ir = [k |-> "map", kx |-> rk.ir, vx |-> rv.ir]]
  ELSE Fail(st, "mismatch")

FieldsLoop(prog, st, m, seen, sfs, tfs, i, acc, av, top) ==
  IF st.fail # "" THEN [st |-> st, seen |-> seen, ir |-> NoBody]
  ELSE IF i > Len(tfs) THEN [st |-> st, seen |-> seen, ir |-> [k |-> "struct", fs |-> acc, names |-> [j \in DOMAIN tfs |-> tfs[j].n]]]
  ELSE IF sfs[i].t.k = "meth" THEN                                        \* source method: called in place, its error makes the method fallible
       LET st1 == IF prog.extErr THEN NeedErr(st, m) ELSE st IN
       FieldsLoop(prog, st1, m, seen, sfs, tfs, i + 1, Append(acc, [src |-> i, x |-> [k |-> "mth", retErr |-> prog.extErr]]), av, top)
  ELSE LET r == Conv(prog, st, m, seen, sfs[i].t, tfs[i].t, av, FALSE)
       IN FieldsLoop(prog, r.st, m, r.seen, sfs, tfs, i + 1, Append(acc, [src |-> i, x |-> r.ir]), av, top)

\* one call of buildMethod; the context argument is in scope iff the method has it when the build starts
BuildTop(prog, st, m, avail) ==
  LET av == [avail |-> avail, inScope |-> st.ms[m].ctx]
      r == Rule(prog, st, m, {}, st.ms[m].src, st.ms[m].tgt, av, TRUE)
  IN IF r.st.fail # "" THEN r.st ELSE [r.st EXCEPT !.ms[m].body = r.ir]

(* buildDirtyMethods: one sweep visits the methods that exist when it starts, in *name* order, and builds those that are dirty when it
   reaches them.  Names: the declared Conv, ConvB, ConvL; generated <source id>To<Target id> with the package name in the id --
   p12AToP12A2 < p12BToP12B2 < p12LPToIntList < p12NIToString < pP12AToPP12A2 < pP12BToP12B2 < pP12BToPP12B2.                       *)
Rank(mr) ==
  IF mr.explicit THEN (IF mr.src = N("A") THEN 0 ELSE IF mr.src = N("B") THEN 1 ELSE IF mr.src = N("H") THEN 3 ELSE 2)
  ELSE CASE mr.src = N("A") -> 10 [] mr.src = N("B") -> 11
         [] mr.src.k = "nn" /\ mr.src.id = "LP" -> 12 [] mr.src.k = "nn" -> 13
         [] mr.src = P(N("A")) -> 14
         [] mr.src = P(N("B")) /\ mr.tgt = N("B2") -> 15
         [] OTHER -> 16
SortedIdx(st) == SortSeq([i \in DOMAIN st.ms |-> i], LAMBDA a, b : Rank(st.ms[a]) < Rank(st.ms[b]))
RECURSIVE SweepSeq(_,_,_,_)
SweepSeq(prog, st, order, k) ==
  IF k > Len(order) \/ st.fail # "" THEN st
  ELSE LET m == order[k] IN
       IF st.ms[m].dirty
       THEN LET avail == IF st.ms[m].explicit THEN st.ms[m].ctx
                         ELSE IF Dev(prog) = "availcreator" THEN st.ms[Head(st.ms[m].origin)].ctx   \* the creator's context set, aliased
                         ELSE IF Fixed THEN st.ms[m].avail ELSE st.ms[m].ctx      \* pinned: a rebuild sees only the method's own contexts
            IN SweepSeq(prog, BuildTop(prog, [st EXCEPT !.ms[m].dirty = FALSE], m, avail), order, k + 1)
       ELSE SweepSeq(prog, st, order, k + 1)
SweepFrom(prog, st, m) == SweepSeq(prog, st, SortedIdx(st), 1)
AnyDirty(st) == \E m \in DOMAIN st.ms : st.ms[m].dirty

RECURSIVE Generate(_,_,_)
Generate(prog, st, fuel) ==
  IF st.fail # "" \/ ~AnyDirty(st) THEN [st |-> st, sweeps |-> 12 - fuel, converged |-> TRUE]
  ELSE IF fuel = 0 THEN [st |-> st, sweeps |-> 12, converged |-> FALSE]
  ELSE Generate(prog, SweepFrom(prog, st, 1), fuel - 1)

\* declB: a second declared method ConvB(source B) B2 ("plain") or ConvB(source B, ctx Ctx) B2 ("ctx") -- it must be used
\* wherever B -> B2 occurs, and generation must fail where its context is not available
DeclB(prog) == prog.declB
DeclH(prog) == "declH" \in DOMAIN prog /\ prog.declH
Init0(prog) == [fail |-> "", ms |-> <<WithZero(NewMethod(RootSrc, RootTgt, TRUE, prog.rootErr, prog.rootCtx, <<>>, prog.rootCtx), ZeroConv(prog))>>
                                      \o (IF DeclB(prog) = "none" THEN <<>>
                                          ELSE <<WithZero(NewMethod(N("B"), N("B2"), TRUE, prog.rootErr, DeclB(prog) = "ctx", <<>>, DeclB(prog) = "ctx"), ZeroConv(prog))>>)
                                      \o (IF prog.declL THEN <<WithZero(NewMethod(S(P(INT)), S(INT), TRUE, prog.rootErr, FALSE, <<>>, FALSE), TRUE)>> ELSE <<>>)
                                      \o (IF DeclH(prog) THEN <<WithZero(NewMethod(N("H"), N("H2"), TRUE, FALSE, FALSE, <<>>, FALSE), ZeroConv(prog))>> ELSE <<>>)]
Gen(prog) == Generate(prog, Init0(prog), 12)

\* ---------------------------------------------------------------- invariants on the result (WellFormed, C01)
RECURSIVE Calls(_), HasFallibleExt(_), Exts(_)
Calls(ir) ==
  CASE ir.k = "call" -> {ir}
    [] ir.k \in {"ptrptr", "valptr", "srcptr", "slice", "cast"} -> Calls(ir.x)
    [] ir.k = "map" -> Calls(ir.kx) \cup Calls(ir.vx)
    [] ir.k = "struct" -> UNION {Calls(ir.fs[i].x) : i \in DOMAIN ir.fs}
    [] OTHER -> {}
Exts(ir) ==
  CASE ir.k = "ext" -> {ir}
    [] ir.k = "mth" -> {[k |-> "ext", fn |-> "M", retErr |-> ir.retErr, passCtx |-> FALSE, needCtx |-> FALSE]}
    [] ir.k \in {"ptrptr", "valptr", "srcptr", "slice", "cast"} -> Exts(ir.x)
    [] ir.k = "map" -> Exts(ir.kx) \cup Exts(ir.vx)
    [] ir.k = "struct" -> UNION {Exts(ir.fs[i].x) : i \in DOMAIN ir.fs}
    [] OTHER -> {}
HasFallibleExt(ir) == \E e \in Exts(ir) : e.retErr
\* SigConsistentAtAppend: the (error result, context argument) a call was emitted for is the callee's final one,
\* and a context argument is passed exactly when the callee / the extend function has the parameter
StaleEdges(st) == {p \in (DOMAIN st.ms) \X (DOMAIN st.ms) :
                      \E c \in Calls(st.ms[p[1]].body) : c.callee = p[2] /\
                          (c.assumedErr # st.ms[p[2]].retErr \/ c.assumedCtx # st.ms[p[2]].ctx \/ c.passCtx # st.ms[p[2]].ctx)}
MissingCtxArg(st) == {m \in DOMAIN st.ms : \E e \in Exts(st.ms[m].body) : e.needCtx /\ ~e.passCtx}
ErrorDropped(st) == {m \in DOMAIN st.ms : ~st.ms[m].retErr /\
                       (HasFallibleExt(st.ms[m].body) \/ \E c \in Calls(st.ms[m].body) : st.ms[c.callee].retErr)}
WellFormed(st) == StaleEdges(st) = {} /\ MissingCtxArg(st) = {}
Outcome(g) == IF ~g.converged THEN "diverges" ELSE IF g.st.fail # "" THEN "fail" ELSE IF ~WellFormed(g.st) THEN "uncompilable" ELSE "ok"

\* ---------------------------------------------------------------- naming (C01: no emitted identifier shadowed)
(* The user's package is imported under the alias jennifer derives from the last path element.  Parameters are named
   source / context / target, the receiver c; inside a method body these shadow an import alias of the same name, and
   every body of this family references the user's package (it declares a variable of a named type).          *)
DirNames == {"p", "source", "target", "context", "c", "fmt"}
AliasShadowed(prog, dir) == dir \in {"source", "c"} \/ (dir = "context" /\ prog.rootCtx)

Progs == { [shape |-> [A |-> a, B |-> b], rootErr |-> re, extErr |-> xe, rootCtx |-> rc, extCtx |-> xc, extId |-> FALSE, wrap |-> "none", declB |-> "none", under |-> FALSE, declL |-> FALSE] :
             a \in Shapes("A"), b \in Shapes("B"), re \in BOOLEAN, xe \in BOOLEAN, rc \in BOOLEAN, xc \in BOOLEAN }
\* second program set: maps, string -> string, the identity-pair extend function, wrapErrorsUsing
AllKindsA == FieldKinds("A") \cup MoreKinds
ShapesMore == {<<a>> : a \in AllKindsA} \cup {<<a, b>> : a \in AllKindsA, b \in AllKindsA}
\* wrap "plain" = wrapErrors (fmt.Errorf chain): only where something can fail, and without maps (the statement names fields and
\* indices only; the code adds nothing when the innermost element is a map key)
MapKinds == {"mapB", "mapK", "mapV", "mapKV", "mapVS"}
HasMapKind(sh) == \E i \in DOMAIN sh : sh[i] \in MapKinds
ProgsMore0 == { [shape |-> [A |-> a, B |-> b], rootErr |-> eb[1], extErr |-> eb[2], rootCtx |-> FALSE, extCtx |-> FALSE, extId |-> xi, wrap |-> w, declB |-> "none", under |-> FALSE, declL |-> FALSE] :
                 a \in {x \in ShapesMore : \E i \in DOMAIN x : x[i] \in MoreKinds}, b \in {<<"i2i">>, <<"i2s">>, <<"i2s", "ptrB">>, <<"s2s", "i2s">>, <<"p2s", "i2i">>, <<"mth", "i2i">>, <<"i2ps", "slcB">>, <<"pp2s", "mapVS">>},
                 eb \in {<<TRUE, TRUE>>, <<FALSE, FALSE>>, <<TRUE, FALSE>>}, xi \in BOOLEAN, w \in {"none", "using", "plain"} }
ProgsMore == { q \in ProgsMore0 : q.wrap = "plain" => (q.rootErr /\ q.extErr /\ ~HasMapKind(q.shape.A) /\ ~HasMapKind(q.shape.B)) }
\* programs in which B is reachable from A (otherwise B's shape is irrelevant): one representative shape for B
Reaches(a) == \E i \in DOMAIN a : a[i] \in {"ptrB", "slcB", "valB"}
Reaches2(a) == \E i \in DOMAIN a : a[i] \in {"ptrB", "slcB", "valB", "mapB", "p2vB"}
\* third program set: a second declared method for B -> B2, with and without a context parameter
ProgsDecl == { [shape |-> [A |-> a, B |-> b], rootErr |-> FALSE, extErr |-> FALSE, rootCtx |-> rc, extCtx |-> FALSE, extId |-> FALSE, wrap |-> "none", declB |-> db, under |-> FALSE, declL |-> FALSE] :
                 a \in {x \in ShapesMore : Reaches2(x)}, b \in {<<"i2i">>, <<"i2i", "ptrB">>}, rc \in BOOLEAN, db \in {"plain", "ctx"} }
ShapesUnder == {<<a>> : a \in UnderKinds} \cup {<<a, b>> : a \in UnderKinds, b \in UnderKinds \cup {"i2i", "i2s", "slcA"}} \cup {<<b, a>> : a \in UnderKinds, b \in {"i2s", "ptrA"}}
ProgsUnder == { [shape |-> [A |-> a, B |-> <<"i2i">>], rootErr |-> eb[1], extErr |-> eb[2], rootCtx |-> FALSE, extCtx |-> FALSE, extId |-> FALSE, wrap |-> w,
                 declB |-> "none", under |-> u, declL |-> dl] :
                 a \in ShapesUnder, eb \in {<<TRUE, TRUE>>, <<FALSE, FALSE>>, <<TRUE, FALSE>>}, w \in {"none", "using"}, u \in BOOLEAN, dl \in BOOLEAN }
\* fifth program set: the further declared method Tail
ProgsTail == { [shape |-> [A |-> a, B |-> b], rootErr |-> re, extErr |-> xe, rootCtx |-> FALSE, extCtx |-> FALSE, extId |-> FALSE, wrap |-> "none",
                declB |-> "none", under |-> FALSE, declL |-> FALSE, declH |-> TRUE] :
                a \in {<<"valB">>, <<"ptrB">>, <<"slcB", "i2s">>, <<"i2i">>}, b \in Shapes("B"), re \in BOOLEAN, xe \in BOOLEAN }
ProgsR == ProgsTail \cup ProgsUnder \cup ProgsDecl \cup {p \in Progs : Reaches(p.shape.A) \/ p.shape.B = <<"i2i">>} \cup {p \in ProgsMore : Reaches2(p.shape.A) \/ p.shape.B = <<"i2i">>}
=============================================================================
