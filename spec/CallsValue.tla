----------------------------- MODULE CallsValue -----------------------------
(* Value level of the F-Calls family: what the generated methods compute (Eval over the bodies produced by
   Calls.tla, with a marking, fault-injecting extend function) and what C06 / C07 say they must compute.   *)
EXTENDS Calls

\* the declarative side looks through named non-struct types
U(t) == IF t.k = "nn" THEN t.u ELSE t
DF(shape, id) == LET fs == FieldsOf(shape, id) IN [i \in DOMAIN fs |-> [n |-> fs[i].n, t |-> U(fs[i].t)]]
Nil == [k |-> "nil"]
Bz == [k |-> "b", tok |-> "z"]
Ba == [k |-> "b", tok |-> "a"]
RECURSIVE ValsN(_,_,_)
ValsN(prog, t, d) ==
  CASE t.k \in {"basic", "meth"} -> {Bz, Ba}
    [] t.k = "ptr" -> {Nil} \cup (IF t.e.k = "basic" THEN {[k |-> "p", e |-> v] : v \in {Bz, Ba}}               \* pointers to basic values at any depth
                                  ELSE IF d = 0 THEN {} ELSE {[k |-> "p", e |-> v] : v \in ValsN(prog, t.e, d - 1)})
    [] t.k = "slice" -> {Nil, [k |-> "s", es |-> <<>>]} \cup
                         (IF d = 0 THEN {} ELSE {[k |-> "s", es |-> <<v>>] : v \in ValsN(prog, t.e, d - 1)})
    [] t.k = "map" -> {Nil, [k |-> "m", kv |-> {}]} \cup
                       (IF d = 0 THEN {} ELSE {[k |-> "m", kv |-> {<<kk, v>>}] : kk \in ValsN(prog, t.key, 0), v \in ValsN(prog, t.e, d - 1)})
    [] t.k = "named" ->
         LET fs == DF(prog.shape, t.id) IN
         IF Len(fs) = 1 THEN {[k |-> "st", fs |-> <<v>>] : v \in ValsN(prog, fs[1].t, d)}
         ELSE {[k |-> "st", fs |-> <<v, w>>] : v \in ValsN(prog, fs[1].t, d), w \in ValsN(prog, fs[2].t, d)}

\* the zero value of a type
RECURSIVE ZeroT(_,_)
ZeroT(prog, t) == IF t.k = "basic" THEN Bz
                  ELSE IF t.k = "named" THEN LET fs == DF(prog.shape, t.id) IN [k |-> "st", fs |-> [i \in DOMAIN fs |-> ZeroT(prog, fs[i].t)]]
                  ELSE Nil
\* the element type on the target side of a pointer source (the target need not be a pointer: SourcePointer)
TE(t) == IF t.k = "ptr" THEN t.e ELSE t

\* the extend function: E(v) = "E(<tok>)" (with "@c" when it receives the context value); it fails on injected tokens
Mark(prog, v) == [k |-> "b", tok |-> "E(" \o v.tok \o ")" \o (IF prog.extCtx THEN "@c" ELSE "")]
MarkC(v) == [k |-> "b", tok |-> "C(" \o v.tok \o ")"]                  \* Canon(string) string
Ok(v) == [v |-> v, err |-> "", path |-> <<>>]
Er(e, path) == [v |-> Nil, err |-> e, path |-> path]
\* location elements as the wrapErrorsUsing package of the harness renders them
PField(n) == n
PIndex(i) == "[" \o ToString(i - 1) \o "]"
PKey(kv) == "{" \o kv.tok \o "}"

\* A location is a sequence of *segments*, one per method on the call path, each the elements that method was setting.
\* wrapErrorsUsing reports all of them outermost first; wrapErrors reports, per method, the innermost element of its segment.
AddE(path, e) == [path EXCEPT ![Len(path)] = Append(@, e)]
RECURSIVE FlatP(_)
FlatP(path) == IF path = <<>> THEN <<>> ELSE Head(path) \o FlatP(Tail(path))
RECURSIVE ChainP(_)
ChainP(path) == IF path = <<>> THEN <<>> ELSE (IF Head(path) = <<>> THEN <<>> ELSE <<Head(path)[Len(Head(path))]>>) \o ChainP(Tail(path))
Reported(prog, path) == IF prog.wrap = "using" THEN FlatP(path) ELSE IF prog.wrap = "plain" THEN ChainP(path) ELSE <<>>
RECURSIVE Eval(_,_,_,_,_,_), EvalFields(_,_,_,_,_,_,_,_,_), EvalElems(_,_,_,_,_,_,_,_)
\* path: the location of the current position relative to the root (a sub-method starts a new relative path, its caller
\* prepends its own: composing outermost first gives the path from the root)
Eval(prog, ms, ir, v, faults, path) ==
  CASE ir.k = "copy" -> Ok(v)
    [] ir.k = "ext" -> IF ir.fn = "C" THEN Ok(MarkC(v)) ELSE IF ir.retErr /\ v.tok \in faults THEN Er(v.tok, path) ELSE Ok(Mark(prog, v))
    [] ir.k = "cast" -> Eval(prog, ms, ir.x, v, faults, path)
    [] ir.k = "mth" -> IF ir.retErr /\ v.tok \in faults THEN Er(v.tok, path) ELSE Ok(v)
    [] ir.k = "call" -> Eval(prog, ms, ms[ir.callee].body, v, faults, Append(path, <<>>))
    [] ir.k = "valptr" -> LET r == Eval(prog, ms, ir.x, v, faults, path) IN IF r.err # "" THEN r ELSE Ok([k |-> "p", e |-> r.v])
    [] ir.k = "srcptr" -> IF v = Nil THEN Ok(ZeroT(prog, ir.t)) ELSE Eval(prog, ms, ir.x, v.e, faults, path)
    [] ir.k = "ptrptr" -> IF v = Nil THEN Ok(Nil)
                          ELSE LET r == Eval(prog, ms, ir.x, v.e, faults, path) IN IF r.err # "" THEN r ELSE Ok([k |-> "p", e |-> r.v])
    [] ir.k = "slice" -> IF v = Nil THEN Ok(Nil) ELSE EvalElems(prog, ms, ir.x, v.es, 1, <<>>, faults, path)
    [] ir.k = "map" -> IF v = Nil THEN Ok(Nil)
                       ELSE IF v.kv = {} THEN Ok([k |-> "m", kv |-> {}])
                       ELSE LET e == CHOOSE x \in v.kv : TRUE
                                pk == AddE(path, PKey(e[1]))
                                rk == Eval(prog, ms, ir.kx, e[1], faults, pk) IN
                            IF rk.err # "" THEN rk
                            ELSE LET rv == Eval(prog, ms, ir.vx, e[2], faults, pk) IN
                                 IF rv.err # "" THEN rv ELSE Ok([k |-> "m", kv |-> {<<rk.v, rv.v>>}])
    [] ir.k = "struct" -> EvalFields(prog, ms, ir.fs, v, 1, <<>>, faults, path, ir.names)
EvalFields(prog, ms, fs, v, i, acc, faults, path, names) ==
  IF i > Len(fs) THEN Ok([k |-> "st", fs |-> acc])
  ELSE LET r == Eval(prog, ms, fs[i].x, v.fs[fs[i].src], faults, AddE(path, PField(names[i]))) IN
       IF r.err # "" THEN r ELSE EvalFields(prog, ms, fs, v, i + 1, Append(acc, r.v), faults, path, names)
EvalElems(prog, ms, x, es, i, acc, faults, path) ==
  IF i > Len(es) THEN Ok([k |-> "s", es |-> acc])
  ELSE LET r == Eval(prog, ms, x, es[i], faults, AddE(path, PIndex(i))) IN
       IF r.err # "" THEN r ELSE EvalElems(prog, ms, x, es, i + 1, Append(acc, r.v), faults, path)

\* ---------------- declarative (C06 / C07)
\* which named types are reachable from A, and is the extend function needed at all
RECURSIVE ReachIds(_,_,_)
ReachIds(prog, todo, done) ==
  IF todo = {} THEN done
  ELSE LET id == CHOOSE x \in todo : TRUE
           fs == DF(prog.shape, id)
           next == {IF fs[i].t.k = "named" THEN fs[i].t.id ELSE IF fs[i].t.k \in {"ptr", "slice", "map"} /\ fs[i].t.e.k = "named" THEN fs[i].t.e.id ELSE id : i \in DOMAIN fs}
       IN ReachIds(prog, (todo \cup next) \ (done \cup {id}), done \cup {id})
\* does the pair (s, t) need the fallible / context-taking extend function E somewhere (not descending into named types)?
RECURSIVE NeedsE(_,_)
NeedsE(s, t) == IF (s = INT /\ t = STR) \/ s.k = "meth" THEN TRUE
                ELSE IF s.k # "ptr" /\ t.k = "ptr" THEN NeedsE(s, t.e)
                ELSE IF s.k = "ptr" THEN NeedsE(s.e, TE(t))
                ELSE IF s.k = "slice" THEN NeedsE(s.e, t.e)
                ELSE IF s.k = "map" THEN NeedsE(s.key, t.key) \/ NeedsE(s.e, t.e)
                ELSE FALSE
UsesExt(prog) == \E id \in ReachIds(prog, {"A"}, {}) : \E i \in DOMAIN DF(prog.shape, id) : NeedsE(DF(prog.shape, id)[i].t, DF(prog.shape, id \o "2")[i].t)
\* generation must succeed unless an error would be dropped or a required context is unavailable
\* a declared method ConvB(source B, ctx Ctx) B2 is the conversion of every B -> B2 position; where no context value can be
\* obtained (the root method has no such parameter) generation must fail rather than fall back to a generated conversion
DeclCtxNeeded(prog) == prog.declB = "ctx" /\ "B" \in ReachIds(prog, {"A"}, {}) /\ ~prog.rootCtx
\* useUnderlyingTypeMethods: NI -> string needs the setting (then E on int applies); LP -> []int needs the setting and the declared
\* method ConvL (no other method may turn *int into int)
KindsA(prog) == {prog.shape.A[i] : i \in DOMAIN prog.shape.A}
UnderOK(prog) == ("nI2s" \in KindsA(prog) => prog.under) /\ ("nL" \in KindsA(prog) => prog.under /\ prog.declL)
\* the further declared method Tail(source H) H2 has no error result: a fallible function reachable from B, or the declared Conv
\* with its error result, must make generation fail
UsesExtFrom(prog, id0) == \E id \in ReachIds(prog, {id0}, {}) : \E i \in DOMAIN DF(prog.shape, id) : NeedsE(DF(prog.shape, id)[i].t, DF(prog.shape, id \o "2")[i].t)
TailOK(prog) == DeclH(prog) => ~((UsesExtFrom(prog, "B") /\ prog.extErr) \/ ("A" \in ReachIds(prog, {"B"}, {}) /\ prog.rootErr))
GenOK(prog) == UnderOK(prog) /\ TailOK(prog) /\ ~(UsesExt(prog) /\ prog.extErr /\ ~prog.rootErr) /\ ~(UsesExt(prog) /\ prog.extCtx /\ ~prog.rootCtx) /\ ~DeclCtxNeeded(prog)

RECURSIVE SMapN(_,_,_,_), Reached(_,_,_,_,_)
\* C06: every int -> string position, at any depth, carries E's result (with the context passed unchanged)
SMapN(prog, s, t, v) ==
  IF s.k # "ptr" /\ t.k = "ptr" THEN [k |-> "p", e |-> SMapN(prog, s, t.e, v)]          \* a value becomes a non-nil pointer to its conversion
  ELSE IF s = INT /\ t = STR THEN Mark(prog, v)
  ELSE IF prog.extId /\ s = STR /\ t = STR THEN MarkC(v)                   \* ... and Canon's at every string -> string position, map keys included
  ELSE IF s.k \in {"basic", "meth"} THEN v
  ELSE IF s.k = "map" THEN (IF v = Nil THEN Nil ELSE [k |-> "m", kv |-> {<<SMapN(prog, s.key, t.key, e[1]), SMapN(prog, s.e, t.e, e[2])>> : e \in v.kv}])
  ELSE IF s.k = "ptr" /\ t.k # "ptr" THEN (IF v = Nil THEN ZeroT(prog, t) ELSE SMapN(prog, s.e, t, v.e))
  ELSE IF s.k = "ptr" THEN (IF v = Nil THEN Nil ELSE [k |-> "p", e |-> SMapN(prog, s.e, t.e, v.e)])
  ELSE IF s.k = "slice" THEN (IF v = Nil THEN Nil ELSE [k |-> "s", es |-> [i \in DOMAIN v.es |-> SMapN(prog, s.e, t.e, v.es[i])]])
  ELSE LET sf == DF(prog.shape, s.id) tf == DF(prog.shape, t.id) IN
       [k |-> "st", fs |-> [i \in DOMAIN tf |-> SMapN(prog, sf[i].t, tf[i].t, v.fs[i])]]
\* C07: the injected faults a conversion of v must hit
Reached(prog, s, t, v, faults) ==
  IF s.k # "ptr" /\ t.k = "ptr" THEN Reached(prog, s, t.e, v, faults)
  ELSE IF (s = INT /\ t = STR) \/ s.k = "meth" THEN (IF prog.extErr /\ v.tok \in faults THEN {v.tok} ELSE {})
  ELSE IF s.k = "basic" THEN {}
  ELSE IF s.k = "map" THEN (IF v = Nil THEN {} ELSE UNION {Reached(prog, s.key, t.key, e[1], faults) \cup Reached(prog, s.e, t.e, e[2], faults) : e \in v.kv})
  ELSE IF s.k = "ptr" THEN (IF v = Nil THEN {} ELSE Reached(prog, s.e, TE(t), v.e, faults))
  ELSE IF s.k = "slice" THEN (IF v = Nil THEN {} ELSE UNION {Reached(prog, s.e, t.e, v.es[i], faults) : i \in DOMAIN v.es})
  ELSE LET sf == DF(prog.shape, s.id) tf == DF(prog.shape, t.id) IN
       UNION {Reached(prog, sf[i].t, tf[i].t, v.fs[i], faults) : i \in DOMAIN tf}
\* C07, wrapErrorsUsing: the location of the first failing position in conversion order (fields in target order, elements
\* in order, map key before map value): target field names, slice indices, source map keys, outermost first.  <<"-">> = none
\* A method encloses the conversion of a named struct, or of a pointer to one together with its pointee (`cont`): these are the
\* positions at which a new segment starts; the root conversion is the first.
RECURSIVE FaultPath(_,_,_,_,_,_,_), FaultFields(_,_,_,_,_,_,_), FaultElems(_,_,_,_,_,_,_)
NoPath == <<<<"-">>>>
FaultPath(prog, s, t, v, faults, path0, cont) ==
  LET start == ~cont /\ (s.k = "named" \/ (s.k = "ptr" /\ s.e.k = "named"))
      path == IF start THEN Append(path0, <<>>) ELSE path0 IN
  IF s.k # "ptr" /\ t.k = "ptr" THEN FaultPath(prog, s, t.e, v, faults, path, TRUE)
  ELSE IF (s = INT /\ t = STR) \/ s.k = "meth" THEN (IF prog.extErr /\ v.tok \in faults THEN path ELSE NoPath)
  ELSE IF s.k = "basic" THEN NoPath
  ELSE IF s.k = "ptr" THEN (IF v = Nil THEN NoPath ELSE FaultPath(prog, s.e, TE(t), v.e, faults, path, s.e.k = "named"))
  ELSE IF s.k = "slice" THEN (IF v = Nil THEN NoPath ELSE FaultElems(prog, s.e, t.e, v.es, 1, faults, path))
  ELSE IF s.k = "map" THEN
       (IF v = Nil \/ v.kv = {} THEN NoPath
        ELSE LET e == CHOOSE x \in v.kv : TRUE pk == AddE(path, PKey(e[1])) fk == FaultPath(prog, s.key, t.key, e[1], faults, pk, FALSE) IN
             IF fk # NoPath THEN fk ELSE FaultPath(prog, s.e, t.e, e[2], faults, pk, FALSE))
  ELSE FaultFields(prog, DF(prog.shape, s.id), DF(prog.shape, t.id), v, 1, faults, path)
FaultFields(prog, sf, tf, v, i, faults, path) ==
  IF i > Len(tf) THEN NoPath
  ELSE LET f == FaultPath(prog, sf[i].t, tf[i].t, v.fs[i], faults, AddE(path, PField(tf[i].n)), FALSE) IN
       IF f # NoPath THEN f ELSE FaultFields(prog, sf, tf, v, i + 1, faults, path)
FaultElems(prog, s, t, es, i, faults, path) ==
  IF i > Len(es) THEN NoPath
  ELSE LET f == FaultPath(prog, s, t, es[i], faults, AddE(path, PIndex(i)), FALSE) IN
       IF f # NoPath THEN f ELSE FaultElems(prog, s, t, es, i + 1, faults, path)
ValueOK(prog, v, faults, o) ==
  LET reached == Reached(prog, RootSrc, RootTgt, v, faults) IN
  IF reached = {} THEN o.err = "" /\ o.v = SMapN(prog, RootSrc, RootTgt, v)
  ELSE o.err \in reached /\ (prog.wrap # "none" => Reported(prog, o.path) = Reported(prog, FaultPath(prog, RootSrc, RootTgt, v, faults, <<>>, FALSE)))
=============================================================================
