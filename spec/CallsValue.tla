----------------------------- MODULE CallsValue -----------------------------
(* Value level of the F-Calls family: what the generated methods compute (Eval over the bodies produced by
   Calls.tla, with a marking, fault-injecting extend function) and what C06 / C07 say they must compute.   *)
EXTENDS Calls

Nil == [k |-> "nil"]
Bz == [k |-> "b", tok |-> "z"]
Ba == [k |-> "b", tok |-> "a"]
RECURSIVE ValsN(_,_,_)
ValsN(prog, t, d) ==
  CASE t.k = "basic" -> {Bz, Ba}
    [] t.k = "ptr" -> {Nil} \cup (IF d = 0 THEN {} ELSE {[k |-> "p", e |-> v] : v \in ValsN(prog, t.e, d - 1)})
    [] t.k = "slice" -> {Nil, [k |-> "s", es |-> <<>>]} \cup
                         (IF d = 0 THEN {} ELSE {[k |-> "s", es |-> <<v>>] : v \in ValsN(prog, t.e, d - 1)})
    [] t.k = "named" ->
         LET fs == FieldsOf(prog.shape, t.id) IN
         IF Len(fs) = 1 THEN {[k |-> "st", fs |-> <<v>>] : v \in ValsN(prog, fs[1].t, d)}
         ELSE {[k |-> "st", fs |-> <<v, w>>] : v \in ValsN(prog, fs[1].t, d), w \in ValsN(prog, fs[2].t, d)}

\* the extend function: E(v) = "E(<tok>)" (with "@c" when it receives the context value); it fails on injected tokens
Mark(prog, v) == [k |-> "b", tok |-> "E(" \o v.tok \o ")" \o (IF prog.extCtx THEN "@c" ELSE "")]
Ok(v) == [v |-> v, err |-> ""]
Er(e) == [v |-> Nil, err |-> e]

RECURSIVE Eval(_,_,_,_,_), EvalFields(_,_,_,_,_,_,_), EvalElems(_,_,_,_,_,_,_)
Eval(prog, ms, ir, v, faults) ==
  CASE ir.k = "copy" -> Ok(v)
    [] ir.k = "ext" -> IF ir.retErr /\ v.tok \in faults THEN Er(v.tok) ELSE Ok(Mark(prog, v))
    [] ir.k = "call" -> Eval(prog, ms, ms[ir.callee].body, v, faults)
    [] ir.k = "valptr" -> LET r == Eval(prog, ms, ir.x, v, faults) IN IF r.err # "" THEN r ELSE Ok([k |-> "p", e |-> r.v])
    [] ir.k = "ptrptr" -> IF v = Nil THEN Ok(Nil)
                          ELSE LET r == Eval(prog, ms, ir.x, v.e, faults) IN IF r.err # "" THEN r ELSE Ok([k |-> "p", e |-> r.v])
    [] ir.k = "slice" -> IF v = Nil THEN Ok(Nil) ELSE EvalElems(prog, ms, ir.x, v.es, 1, <<>>, faults)
    [] ir.k = "struct" -> EvalFields(prog, ms, ir.fs, v, 1, <<>>, faults)
EvalFields(prog, ms, fs, v, i, acc, faults) ==
  IF i > Len(fs) THEN Ok([k |-> "st", fs |-> acc])
  ELSE LET r == Eval(prog, ms, fs[i].x, v.fs[fs[i].src], faults) IN
       IF r.err # "" THEN r ELSE EvalFields(prog, ms, fs, v, i + 1, Append(acc, r.v), faults)
EvalElems(prog, ms, x, es, i, acc, faults) ==
  IF i > Len(es) THEN Ok([k |-> "s", es |-> acc])
  ELSE LET r == Eval(prog, ms, x, es[i], faults) IN
       IF r.err # "" THEN r ELSE EvalElems(prog, ms, x, es, i + 1, Append(acc, r.v), faults)

\* ---------------- declarative (C06 / C07)
\* which named types are reachable from A, and is the extend function needed at all
RECURSIVE ReachIds(_,_,_)
ReachIds(prog, todo, done) ==
  IF todo = {} THEN done
  ELSE LET id == CHOOSE x \in todo : TRUE
           fs == FieldsOf(prog.shape, id)
           next == {IF fs[i].t.k = "named" THEN fs[i].t.id ELSE IF fs[i].t.k \in {"ptr", "slice"} /\ fs[i].t.e.k = "named" THEN fs[i].t.e.id ELSE id : i \in DOMAIN fs}
       IN ReachIds(prog, (todo \cup next) \ (done \cup {id}), done \cup {id})
UsesExt(prog) == \E id \in ReachIds(prog, {"A"}, {}) : \E i \in DOMAIN FieldsOf(prog.shape, id) : FieldsOf(prog.shape, id)[i].t = INT /\ FieldsOf(prog.shape, id \o "2")[i].t = STR
\* generation must succeed unless an error would be dropped or a required context is unavailable
GenOK(prog) == ~(UsesExt(prog) /\ prog.extErr /\ ~prog.rootErr) /\ ~(UsesExt(prog) /\ prog.extCtx /\ ~prog.rootCtx)

RECURSIVE SMapN(_,_,_,_), Reached(_,_,_,_,_)
\* C06: every int -> string position, at any depth, carries E's result (with the context passed unchanged)
SMapN(prog, s, t, v) ==
  IF s = INT /\ t = STR THEN Mark(prog, v)
  ELSE IF s.k = "basic" THEN v
  ELSE IF s.k = "ptr" THEN (IF v = Nil THEN Nil ELSE [k |-> "p", e |-> SMapN(prog, s.e, t.e, v.e)])
  ELSE IF s.k = "slice" THEN (IF v = Nil THEN Nil ELSE [k |-> "s", es |-> [i \in DOMAIN v.es |-> SMapN(prog, s.e, t.e, v.es[i])]])
  ELSE LET sf == FieldsOf(prog.shape, s.id) tf == FieldsOf(prog.shape, t.id) IN
       [k |-> "st", fs |-> [i \in DOMAIN tf |-> SMapN(prog, sf[i].t, tf[i].t, v.fs[i])]]
\* C07: the injected faults a conversion of v must hit
Reached(prog, s, t, v, faults) ==
  IF s = INT /\ t = STR THEN (IF prog.extErr /\ v.tok \in faults THEN {v.tok} ELSE {})
  ELSE IF s.k = "basic" THEN {}
  ELSE IF s.k = "ptr" THEN (IF v = Nil THEN {} ELSE Reached(prog, s.e, t.e, v.e, faults))
  ELSE IF s.k = "slice" THEN (IF v = Nil THEN {} ELSE UNION {Reached(prog, s.e, t.e, v.es[i], faults) : i \in DOMAIN v.es})
  ELSE LET sf == FieldsOf(prog.shape, s.id) tf == FieldsOf(prog.shape, t.id) IN
       UNION {Reached(prog, sf[i].t, tf[i].t, v.fs[i], faults) : i \in DOMAIN tf}
ValueOK(prog, v, faults, o) ==
  LET reached == Reached(prog, RootSrc, RootTgt, v, faults) IN
  IF reached = {} THEN o.err = "" /\ o.v = SMapN(prog, RootSrc, RootTgt, v) ELSE o.err \in reached
=============================================================================
