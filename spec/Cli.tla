--------------------------------- MODULE Cli ---------------------------------
(* L1: the command line (cli/parse.go): two flag.FlagSets (ContinueOnError) as a total function
   Parse(argv) \in {help, version, usage, generate(patterns)}.  argv excludes the program name.
   Transcribes Go's flag package for the argument shapes of the alphabet: "-x" and "--x" are the same flag,
   "--" ends flag parsing, parsing stops at the first non-flag, -h/-help yield ErrHelp.                      *)
EXTENDS Naturals, Sequences, FiniteSets, TLC

IsFlag(a) == Len(a) > 1 /\ SubSeq(a, 1, 1) = "-" /\ a # "--"
FlagName(a) == IF Len(a) > 2 /\ SubSeq(a, 1, 2) = "--" THEN SubSeq(a, 3, Len(a)) ELSE SubSeq(a, 2, Len(a))
HelpNames == {"h", "help"}
GenFlags == {"g", "global", "build-tags", "output-constraint", "cwd"}     \* all take a value

Tail2(s) == SubSeq(s, 2, Len(s))
\* first FlagSet: no flags are defined
RECURSIVE TopParse(_)
TopParse(args) ==
  IF args = <<>> THEN [k |-> "rest", rest |-> <<>>]
  ELSE IF args[1] = "--" THEN [k |-> "rest", rest |-> Tail2(args)]
  ELSE IF IsFlag(args[1]) THEN (IF FlagName(args[1]) \in HelpNames THEN [k |-> "help"] ELSE [k |-> "usage", why |-> "unknown flag"])
  ELSE [k |-> "rest", rest |-> args]

RECURSIVE GenParse(_)
GenParse(args) ==
  IF args = <<>> THEN [k |-> "usage", why |-> "missing PATTERN"]
  ELSE IF args[1] = "--" THEN (IF Len(args) = 1 THEN [k |-> "usage", why |-> "missing PATTERN"] ELSE [k |-> "generate", patterns |-> Tail2(args)])
  ELSE IF IsFlag(args[1]) THEN
       LET n == FlagName(args[1]) IN
       IF n \in HelpNames THEN [k |-> "help"]
       ELSE IF n \notin GenFlags THEN [k |-> "usage", why |-> "unknown flag"]
       ELSE IF Len(args) = 1 THEN [k |-> "usage", why |-> "flag needs an argument"]
       ELSE GenParse(SubSeq(args, 3, Len(args)))                         \* the next word is the value, whatever it is
  ELSE [k |-> "generate", patterns |-> args]

Parse(argv) ==
  IF argv = <<>> THEN [k |-> "usage", why |-> "missing command"]
  ELSE LET t == TopParse(argv) IN
       IF t.k # "rest" THEN t
       ELSE IF t.rest = <<>> THEN [k |-> "usage", why |-> "missing command"]
       ELSE CASE t.rest[1] = "gen" -> GenParse(Tail2(t.rest))
              [] t.rest[1] = "version" -> [k |-> "version"]
              [] t.rest[1] = "help" -> [k |-> "help"]
              [] OTHER -> [k |-> "usage", why |-> "unknown command"]

\* exit status and streams the statement fixes per class
ExitOf(p) == CASE p.k \in {"help", "version"} -> 0 [] p.k = "usage" -> 1 [] OTHER -> 2   \* 2 = depends on the run
Alphabet == {"gen", "help", "version", "-h", "--help", "-g", "-cwd", "-bogus", "--", "./...", "x", "-build-tags"}
RECURSIVE Argvs(_)
Argvs(n) == IF n = 0 THEN {<<>>} ELSE Argvs(n - 1) \cup {Append(a, w) : a \in {b \in Argvs(n - 1) : Len(b) = n - 1}, w \in Alphabet}
=============================================================================
