------------------------------ MODULE Comments ------------------------------
(* L1 front end: which comment text becomes settings (config/parse/comment.go CommentToString, parse/line.go
   SettingLines, comments/parse_docs.go parseGenDecl).  Transcribed over real strings; constant-level.

   A comment group is a sequence of comment texts exactly as go/ast stores them ("// ..." or "/* ... */").  *)
EXTENDS Naturals, Sequences, FiniteSets, TLC

Ch(s, i) == SubSeq(s, i, i)
From(s, i) == SubSeq(s, i, Len(s))
IsWs(c) == c = " " \/ c = "\t" \/ c = "\n" \/ c = "\r"
RECURSIVE TrimL(_), TrimR(_), SplitNL(_,_,_), HasSub(_,_)
TrimL(s) == IF Len(s) > 0 /\ IsWs(Ch(s, 1)) THEN TrimL(From(s, 2)) ELSE s
TrimR(s) == IF Len(s) > 0 /\ IsWs(Ch(s, Len(s))) THEN TrimR(SubSeq(s, 1, Len(s) - 1)) ELSE s
Trim(s) == TrimR(TrimL(s))
HasPrefix(s, p) == Len(s) >= Len(p) /\ SubSeq(s, 1, Len(p)) = p
HasSub(s, p) == IF Len(s) < Len(p) THEN FALSE ELSE HasPrefix(s, p) \/ HasSub(From(s, 2), p)
SplitNL(s, i, cur) ==
  IF i > Len(s) THEN <<cur>>
  ELSE IF Ch(s, i) = "\n" THEN <<cur>> \o SplitNL(s, i + 1, "")
  ELSE SplitNL(s, i + 1, cur \o Ch(s, i))

\* CommentToString, first loop: strip the comment markers (and exactly one space after //), split at newlines
BodyOf(c) ==
  IF Ch(c, 2) = "/" THEN
     LET b == From(c, 3) IN
     IF Len(b) = 0 THEN ""
     ELSE IF Ch(b, 1) = " " THEN From(b, 2)
     ELSE b                                       \* directive style //goverter:x is kept (ast.CommentGroup.Text drops it)
  ELSE SubSeq(c, 3, Len(c) - 2)
LinesOf(c) == LET ls == SplitNL(BodyOf(c), 1, "") IN [i \in DOMAIN ls |-> TrimR(ls[i])]
RECURSIVE Flat(_)
Flat(group) == IF group = <<>> THEN <<>> ELSE LinesOf(Head(group)) \o Flat(Tail(group))
\* (leading blank lines dropped / interior runs collapsed by CommentToString do not change which lines are settings)

Prefix == "goverter:"
RECURSIVE Settings(_)
Settings(lines) ==
  IF lines = <<>> THEN <<>>
  ELSE LET t == Trim(Head(lines)) IN
       (IF HasPrefix(t, Prefix) THEN <<From(t, Len(Prefix) + 1)>> ELSE <<>>) \o Settings(Tail(lines))
\* parse.SettingLines(parse.CommentToString(group))
SettingLines(group) == Settings(Flat(group))
\* strings.HasSub(CommentToString(group), marker)
RECURSIVE AnyLineHasSub(_,_)
AnyLineHasSub(lines, m) == lines # <<>> /\ (HasSub(Head(lines), m) \/ AnyLineHasSub(Tail(lines), m))
HasMarker(group, m) == AnyLineHasSub(Flat(group), m)
ConverterMarker == "goverter:converter"
VariablesMarker == "goverter:variables"
\* parse.Command: key and value of a setting line (split at the first space)
RECURSIVE FirstSpace(_,_)
FirstSpace(s, i) == IF i > Len(s) THEN 0 ELSE IF Ch(s, i) = " " THEN i ELSE FirstSpace(s, i + 1)
CommandOf(line) == LET i == FirstSpace(line, 1) IN IF i = 0 THEN <<line, "">> ELSE <<SubSeq(line, 1, i - 1), From(line, i + 1)>>
=============================================================================
