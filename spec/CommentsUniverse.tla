-------------------------- MODULE CommentsUniverse --------------------------
(* Bounded space of comment layouts around declarations, and what the statement (C19) says about each.      *)
EXTENDS Comments

Items == { "//goverter:name A", "//  goverter:name B", "//\tgoverter:name C", "// text goverter:name D",
           "// goverter:name E  ", "// Goverter:name F", "//", "/* goverter:name G */",
           "/*\ngoverter:name H\n*/", "/*\n * goverter:name I\n */", "// goverter:ignore X Y", "//   goverter:extend  P   Q ",
           "// goverter:name   J1", "//goverter:", "// goverter :name K" }
ConvMarkers == { "// goverter:converter", "//goverter:converter", "/* goverter:converter */", "// see goverter:converter for docs",
                 "/*\n * goverter:converter\n */", "//  goverter:converter  " }
VarMarkers == { "// goverter:variables", "//goverter:variables" }
NonMarkers == { "// goverter: converter", "// Goverter:converter", "// goverterconverter" }

\* where the group stands relative to the declaration
Attachments == {"doc", "detached", "trailing", "inside"}
\* declaration kinds; "ok" kinds may legally carry the marker
Kinds == {"type-single", "type-spec", "type-group1", "type-group2", "type-struct", "var-block", "var-single", "const", "func", "import"}

Groups1(M) == {<<m>> : m \in M} \cup {<<m, a>> : m \in M, a \in Items} \cup {<<a, m>> : m \in M, a \in Items}
Groups2(M) == {<<m, a, b>> : m \in M, a \in Items, b \in Items}
MethodGroups == {<<>>} \cup {<<a>> : a \in Items} \cup {<<a, b>> : a \in {"//goverter:name A", "// goverter:ignore X Y", "/* goverter:name G */"}, b \in Items}

\* the marker a kind looks for (its own and the other one)
MarkersFor(kind) == IF kind \in {"var-block", "var-single"} THEN VarMarkers ELSE ConvMarkers

(* What the statement says.  decl = [kind, attach, group, mgroup]:
   group stands at `attach` relative to the declaration, mgroup is the doc comment of its (first) method/variable. *)
Marked(d) == d.attach = "doc" /\ (HasMarker(d.group, ConverterMarker) \/ HasMarker(d.group, VariablesMarker))
IsConv(d) == d.attach = "doc" /\ HasMarker(d.group, ConverterMarker) /\ ~HasMarker(d.group, VariablesMarker)
IsVars(d) == d.attach = "doc" /\ HasMarker(d.group, VariablesMarker)
\* kinds on which the respective marker is legal
ConvKinds == {"type-single", "type-spec", "type-group1"}
VarKinds == {"var-block", "var-single"}
Expect(d) ==
  IF ~Marked(d) THEN "none"
  ELSE IF IsVars(d) THEN (IF d.kind \in VarKinds THEN "variables" ELSE "error")
  ELSE IF d.kind \in ConvKinds THEN "converter" ELSE "error"
ExpectLines(d) == SettingLines(d.group)
\* only the doc comment attached to the method / variable counts (mattach: "doc" | "trailing" | "detached")
ExpectMethodLines(d) == IF d.mattach = "doc" THEN SettingLines(d.mgroup) ELSE <<>>
=============================================================================
