------------------------------- MODULE Default -------------------------------
(* goverter:default FUNC and default:update (builder/default.go buildTargetVar, builder/pointer.go).
   Program: Conv(source S|*S) T|*T with `default NewT`, NewT returning T or *T (optionally taking the source),
   optional default:update, optional `ignore B`.  S, T = struct{A, B int}; NewT yields {A:100, B:200}; the non-nil
   source is {A:5, B:6}.  Expect* state what C11 demands of the result fields: a number, or -1 for "open".    *)
EXTENDS Integers, Sequences, FiniteSets, TLC
\* noflag: a pointer source with a value target *without* useZeroValueOnPointerInconsistency: must not be generated, default or not
DProgs == {p \in [srcPtr : BOOLEAN, tgtPtr : BOOLEAN, funcPtr : BOOLEAN, funcSrc : BOOLEAN, upd : BOOLEAN, ignoreB : BOOLEAN, zskip : BOOLEAN, noflag : BOOLEAN] :
             p.noflag => (p.srcPtr /\ ~p.tgtPtr /\ ~p.zskip /\ ~p.ignoreB)}
\* FUNC's result must be usable for the target: a pointer result only for a pointer target
\* (a pointer source with a value target additionally needs useZeroValueOnPointerInconsistency: the materialiser sets it)
DValid(p) == p.funcPtr => p.tgtPtr
\* does the method convert *into* FUNC's result for a non-nil source?  (value source, or default:update)
BuildsInto(p) == ~p.srcPtr \/ p.upd
\* nil source pointer: FUNC's result unchanged
ExpectNil(p) == [A |-> 100, B |-> 200]
\* non-nil source: mapped fields carry the source; ignored fields keep FUNC's values when the method builds into it
\* source {A:5, B:0} with default:update and update:ignoreZeroValueField: the zero field does not overwrite FUNC's value
\* (judged for pointer sources only: default:update speaks of a non-nil source; for a value source the zero field is left open)
\* ... and for a value source with a pointer target, where the method assigns through FUNC's pointer
ExpectZeroB(p) == [A |-> 5, B |-> IF p.ignoreB /\ BuildsInto(p) THEN 200 ELSE IF ~p.ignoreB /\ (p.srcPtr \/ p.tgtPtr) /\ p.upd /\ p.zskip THEN 200 ELSE -1]
ExpectVal(p) == [A |-> 5, B |-> IF ~p.ignoreB THEN 6 ELSE IF BuildsInto(p) THEN 200 ELSE -1]
=============================================================================
