------------------------------ MODULE EnumSpec ------------------------------
(* Enum conversion (builder/enum.go, xtype/enum.go, enum/detect.go).  An enum is a sequence of members
   [n, v] sorted by name (SortedMembers); duplicate values are allowed.

   Operational part, in the order the code works: walk the source members in name order; resolve the target
   name (enum:map, else same name); check it (action valid / @error needs an error result / member exists);
   a member whose value was already seen is skipped if it agrees with the first one, else generation fails;
   then the unknown policy; then unused enum:map keys.
   Declarative part: EnumGenOK / EnumRun as C08 states them.  Constant-level.                              *)
EXTENDS Integers, Sequences, FiniteSets, TLC

Has(e, n) == \E i \in DOMAIN e : e[i].n = n
ValOf(e, n) == e[CHOOSE i \in DOMAIN e : e[i].n = n].v
IsAction(x) == Len(x) > 0 /\ SubSeq(x, 1, 1) = "@"
ValidAction(x) == x \in {"@error", "@panic", "@ignore"}

\* program: [src, tgt, map (<<>> or <<member, target>>), tr (<<>> or <<pattern, replacement>>), unknown, rootErr, pos, enumOn, same]
\* enum:transform regex PATTERN REPLACEMENT for single-letter literals: the member named PATTERN is renamed, every other
\* name is unchanged; a pair is only produced when the result is a member of the target (enum/transformer_builtin.go)
TrName(tr, n) == IF n = tr[1] THEN tr[2] ELSE n
TrMaps(p, n) == p.tr # <<>> /\ \E i \in DOMAIN p.tgt : p.tgt[i].n = TrName(p.tr, n)
\* a second enum:transform line (tr2, optional field): every transformer yields its pairs -- note that a name its pattern does not
\* match is "renamed" to itself and is a pair when the target has it -- and the pairs are merged in line order, a later one replacing
\* an earlier one for the same member (builder/enum.go executeTransformers)
T2(p) == IF "tr2" \in DOMAIN p THEN p.tr2 ELSE <<>>
Tr2Maps(p, n) == T2(p) # <<>> /\ \E i \in DOMAIN p.tgt : p.tgt[i].n = TrName(T2(p), n)
\* the statement says "by the configured transformers": where two of them name different targets for one member it is silent
TrOpen(p) == \E i \in DOMAIN p.src : LET n == p.src[i].n IN ~(p.map # <<>> /\ p.map[1] = n) /\ TrMaps(p, n) /\ Tr2Maps(p, n) /\ TrName(p.tr, n) # TrName(T2(p), n)
TargetNameOf(m, n) == IF m # <<>> /\ m[1] = n THEN m[2] ELSE n
\* enum:map, else the transformer, else the identical name (builder/enum.go Enum.Build)
TargetName(p, n) == IF p.map # <<>> /\ p.map[1] = n THEN p.map[2] ELSE IF Tr2Maps(p, n) THEN TrName(T2(p), n) ELSE IF TrMaps(p, n) THEN TrName(p.tr, n) ELSE n
ActionCheck(tgt, rootErr, x) ==
  IF IsAction(x) THEN (IF ~ValidAction(x) THEN "invalid-action" ELSE IF x = "@error" /\ ~rootErr THEN "error-without-error-result" ELSE "ok")
  ELSE IF Has(tgt, x) THEN "ok" ELSE "missing-target"
Same(tgt, a, b) == IF ~IsAction(a) /\ ~IsAction(b) THEN ValOf(tgt, a) = ValOf(tgt, b) ELSE a = b

RECURSIVE Walk(_,_,_,_,_,_,_)
Walk(p, src, tgt, m, rootErr, i, seen) ==
  IF i > Len(src) THEN [fail |-> "", cases |-> seen]
  ELSE LET tn == TargetName(p, src[i].n)
           chk == ActionCheck(tgt, rootErr, tn)
       IN IF chk # "ok" THEN [fail |-> chk, cases |-> seen]
          ELSE LET prev == {j \in DOMAIN seen : seen[j].v = src[i].v} IN
               IF prev = {} THEN Walk(p, src, tgt, m, rootErr, i + 1, Append(seen, [v |-> src[i].v, t |-> tn]))
               ELSE LET j == CHOOSE j \in prev : TRUE IN
                    IF Same(tgt, seen[j].t, tn) THEN Walk(p, src, tgt, m, rootErr, i + 1, seen)
                    ELSE [fail |-> "duplicate-mismatch", cases |-> seen]

\* a nested enum pair becomes a generated method that would acquire an error result -- which the declared root
\* method must then have as well (ReturnError walks the creator chain), so @error needs the root's error result everywhere
EffErr(p) == p.rootErr
Gen(p) ==
  IF ~p.enumOn THEN [fail |-> "", cases |-> <<>>, cast |-> TRUE]
  ELSE IF p.tr # <<>> /\ ~\E i \in DOMAIN p.src : TrMaps(p, p.src[i].n) THEN [fail |-> "transformer-maps-nothing", cases |-> <<>>, cast |-> FALSE]
  ELSE IF T2(p) # <<>> /\ ~\E i \in DOMAIN p.src : Tr2Maps(p, p.src[i].n) THEN [fail |-> "transformer-maps-nothing", cases |-> <<>>, cast |-> FALSE]
  ELSE LET w == Walk(p, p.src, p.tgt, p.map, EffErr(p), 1, <<>>) IN
  IF w.fail # "" THEN [fail |-> w.fail, cases |-> w.cases, cast |-> FALSE]
  ELSE IF p.unknown = "" THEN [fail |-> "unknown-not-configured", cases |-> w.cases, cast |-> FALSE]
  ELSE LET chk == ActionCheck(p.tgt, EffErr(p), p.unknown) IN
       IF chk # "ok" THEN [fail |-> chk, cases |-> w.cases, cast |-> FALSE]
       ELSE IF p.map # <<>> /\ ~Has(p.src, p.map[1]) THEN [fail |-> "unused-map-key", cases |-> w.cases, cast |-> FALSE]
       ELSE [fail |-> "", cases |-> w.cases, cast |-> FALSE]

\* the zero value of the target: the abstract value 0 for int enums; float / string enums materialise 0 as 0.5 / "x",
\* so their zero value (0.0 / "") is no enumerated value: -2
ZeroV(p) == IF p.kind = "int" THEN 0 ELSE -2
\* run-time meaning of the emitted switch for input value x
Act(p, a, x) == CASE a = "@error" -> [k |-> "err"] [] a = "@panic" -> [k |-> "panic"] [] a = "@ignore" -> [k |-> "val", v |-> ZeroV(p)]
                  [] OTHER -> [k |-> "val", v |-> ValOf(p.tgt, a)]
RunOp(p, g, x) == IF g.cast THEN [k |-> "val", v |-> x]
                  ELSE LET hit == {j \in DOMAIN g.cases : g.cases[j].v = x} IN
                       IF hit = {} THEN Act(p, p.unknown, x) ELSE Act(p, g.cases[CHOOSE j \in hit : TRUE].t, x)

\* ---------------------------------------------------------------- declarative (C08)
MapOf(p, n) == TargetName(p, n)                             \* enum:map, else the configured transformer, else identical name
TrUseless(p) == p.enumOn /\ ((p.tr # <<>> /\ ~\E i \in DOMAIN p.src : TrMaps(p, p.src[i].n)) \/ (T2(p) # <<>> /\ ~\E i \in DOMAIN p.src : Tr2Maps(p, p.src[i].n)))    \* a transformer that maps nothing: a configuration error
TargetOK(p, a) == IF IsAction(a) THEN ValidAction(a) /\ (a = "@error" => EffErr(p)) ELSE Has(p.tgt, a)
Agree(p, a, b) == IF IsAction(a) \/ IsAction(b) THEN a = b ELSE ValOf(p.tgt, a) = ValOf(p.tgt, b)
EnumGenOK(p) ==
  \/ ~p.enumOn
  \/ /\ ~TrUseless(p)
     /\ \A i \in DOMAIN p.src : TargetOK(p, MapOf(p, p.src[i].n))                       \* every member has a target
     /\ (p.map # <<>> => Has(p.src, p.map[1]))                                             \* configured keys exist
     /\ \A i, j \in DOMAIN p.src : p.src[i].v = p.src[j].v => Agree(p, MapOf(p, p.src[i].n), MapOf(p, p.src[j].n))
     /\ p.unknown # "" /\ TargetOK(p, p.unknown)                                           \* enum:unknown present and valid
EnumRun(p, x) ==
  IF ~p.enumOn THEN [k |-> "val", v |-> x]
  ELSE LET ms == {i \in DOMAIN p.src : p.src[i].v = x} IN
       IF ms = {} THEN Act(p, p.unknown, x) ELSE Act(p, MapOf(p, p.src[CHOOSE i \in ms : TRUE].n), x)

\* ---------------------------------------------------------------- bounded universe
MemberNames == {<<"A">>, <<"B">>, <<"A", "B">>, <<"A", "C">>, <<"A", "B", "C">>}
EnumsOver(vals, maxLen) == UNION { {[i \in 1..Len(ns) |-> [n |-> ns[i], v |-> f[i]]] : f \in [1..Len(ns) -> vals]} : ns \in {x \in MemberNames : Len(x) <= maxLen} }
Unknowns == {"", "@error", "@panic", "@ignore", "A", "Z", "@bogus"}
Maps == {<<>>, <<"A", "B">>, <<"A", "@ignore">>, <<"Z", "A">>, <<"B", "@panic">>, <<"A", "@error">>}
Inputs == <<0, 1, 2, 9>>
\* underlying kinds other than int: float64 and string enums (abstract values 0, 1 are materialised as 0.5 / 1.5 and "x" / "y")
\* (floatclose: float members that differ only from the eighth significant digit on -- 1.5000000, 1.5000001, ...)
Kinds == {"float", "string", "floatclose"}
BigNames == <<"A", "B", "C", "D", "F", "G", "H", "I", "J", "K">>     \* (E is the name of the enum type itself)
BigEnum == [i \in 1..10 |-> [n |-> BigNames[i], v |-> i - 1]]
Trs == {<<"A", "B">>, <<"B", "C">>, <<"A", "Z">>}
Base == [tr |-> <<>>, same |-> FALSE, kind |-> "int"]
Progs(maxLen) ==
  LET E == EnumsOver({0, 1}, maxLen) IN
  {Base @@ [src |-> s, tgt |-> t, map |-> m, unknown |-> u, rootErr |-> e, pos |-> "top", enumOn |-> TRUE] : s \in E, t \in E, m \in Maps, u \in Unknowns, e \in BOOLEAN}
  \cup {Base @@ [src |-> s, tgt |-> t, map |-> <<>>, unknown |-> u, rootErr |-> e, pos |-> ps, enumOn |-> TRUE] : s \in E, t \in E, u \in Unknowns, e \in BOOLEAN, ps \in {"field", "elem"}}
  \cup {Base @@ [src |-> s, tgt |-> t, map |-> <<>>, unknown |-> u, rootErr |-> FALSE, pos |-> ps, enumOn |-> FALSE] : s \in E, t \in E, u \in {"", "@panic"}, ps \in {"top", "field"}}
  \* enum:exclude: "self" names both enum types (the pair is then an ordinary named-basic pair: a cast, enumOn = FALSE in the model);
  \* "other" names a type of the same name in another package and another type of the same package: no effect on the pair
  \cup {Base @@ [src |-> s, tgt |-> t, map |-> <<>>, unknown |-> u, rootErr |-> TRUE, pos |-> ps, enumOn |-> (x = "other"), excl |-> x] :
           s \in E, t \in E, u \in {"@error", "@ignore"}, ps \in {"top", "field"}, x \in {"self", "other"}}
  \* one transformer, alone and together with an enum:map line for the same / another member
  \cup {[kind |-> "int", tr |-> x, same |-> FALSE, src |-> s, tgt |-> t, map |-> m, unknown |-> u, rootErr |-> TRUE, pos |-> "top", enumOn |-> TRUE] :
           s \in E, t \in E, x \in Trs, m \in {<<>>, <<"A", "C">>, <<"A", "@ignore">>, <<"B", "A">>}, u \in {"@error", "@ignore"}}
  \* two transformers (those programs on which the statement is not silent)
  \cup {q \in {[kind |-> "int", tr |-> <<"A", "B">>, tr2 |-> y, same |-> FALSE, src |-> s, tgt |-> t, map |-> <<>>, unknown |-> u, rootErr |-> TRUE, pos |-> "top", enumOn |-> TRUE] :
                  s \in E, t \in E, y \in {<<"C", "B">>, <<"B", "C">>, <<"A", "C">>, <<"C", "A">>}, u \in {"@error", "@ignore"}} : ~TrOpen(q)}
  \cup {[kind |-> k, tr |-> <<>>, same |-> FALSE, src |-> s, tgt |-> t, map |-> <<>>, unknown |-> u, rootErr |-> TRUE, pos |-> "top", enumOn |-> TRUE] :
           k \in Kinds, s \in E, t \in E, u \in {"@error", "@ignore", "A"}}
  \* one large enum (ten members with distinct values)
  \cup {[kind |-> "int", tr |-> <<>>, same |-> sm, src |-> BigEnum, tgt |-> BigEnum, map |-> <<>>, unknown |-> u, rootErr |-> TRUE, pos |-> ps, enumOn |-> TRUE] :
           sm \in BOOLEAN, u \in {"@error", "@ignore"}, ps \in {"top", "field"}}
  \* the same enum type on both sides
  \* (enum:map lines are only enumerated on methods whose own pair is the enum pair: a nested pair becomes a generated method)
  \cup {q \in {[kind |-> "int", tr |-> <<>>, same |-> TRUE, src |-> s, tgt |-> s, map |-> m, unknown |-> u, rootErr |-> e, pos |-> ps, enumOn |-> TRUE] :
                  s \in E, m \in {<<>>, <<"A", "@panic">>}, u \in Unknowns, e \in BOOLEAN, ps \in {"top", "field", "elem"}} : q.map = <<>> \/ q.pos = "top"}
=============================================================================
