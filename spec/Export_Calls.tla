---------------------------- MODULE Export_Calls ----------------------------
EXTENDS CallsValue, Json, SequencesExt
CONSTANTS ScenOut, Part, Parts, AllSuspects
KindCode(k) == CASE k = "i2i" -> 1 [] k = "i2s" -> 2 [] k = "ptrA" -> 3 [] k = "ptrB" -> 5 [] k = "slcA" -> 7 [] k = "slcB" -> 11
                 [] k = "s2s" -> 19 [] k = "mapB" -> 23 [] k = "mapK" -> 29 [] k = "mapV" -> 31 [] k = "mapKV" -> 59 [] k = "p2vB" -> 37 [] k = "p2s" -> 41 [] k = "mth" -> 43 [] k = "i2ps" -> 61 [] k = "pp2s" -> 67 [] k = "mapVS" -> 71 [] k = "nI2s" -> 47 [] k = "nL" -> 53 [] OTHER -> 13
ShapeHash(sh) == IF Len(sh) = 1 THEN KindCode(sh[1]) ELSE KindCode(sh[1]) * 17 + KindCode(sh[2])
\* the small useUnderlyingTypeMethods set is replayed in every run
Mine(p) == (ShapeHash(p.shape.A) * 3 + ShapeHash(p.shape.B)) % Parts = Part \/ (DeclH(p) /\ (ShapeHash(p.shape.B) + KindCode(p.shape.A[1])) % 4 = Part % 4) \/ (\E i \in DOMAIN p.shape.A : p.shape.A[i] \in UnderKinds)
Rec0(p, dir) == LET g == Gen(p) IN
  [dir |-> dir, shape |-> p.shape, rootErr |-> p.rootErr, extErr |-> p.extErr, rootCtx |-> p.rootCtx, extCtx |-> p.extCtx, extId |-> p.extId, wrap |-> p.wrap, declB |-> p.declB, under |-> p.under, declL |-> p.declL, declH |-> DeclH(p),
   genOK |-> GenOK(p), model |-> Outcome(g),
   ins |-> IF GenOK(p) THEN SetToSeq(ValsN(p, RootSrc, 1)) ELSE <<>>]
\* this run's share of the programs, plus (AllSuspects) every program whose model outcome is not plain ok/fail
Rec(p) == Rec0(p, "p")
NamedProgs == {p \in ProgsR : p.shape.A \in {<<"i2i">>, <<"i2s">>, <<"slcA", "i2s">>} /\ p.shape.B = <<"i2i">>}
\* Deviation-guided selection (kept for experiments, not part of Scen): programs on which a named deviation of the protocol ends
\* differently.  For "availcreator" the set is empty in this family (one context type): measured, so nothing is selected.
\* (an eighth of them per run, by shape hash)
SensMine(q) == (ShapeHash(q.shape.A) + 7 * ShapeHash(q.shape.B)) % 8 = Part % 8
Sensitive(q) == q.rootCtx /\ q.extCtx /\ Outcome(Gen(q @@ [dev |-> "availcreator"])) # Outcome(Gen(q))
Scen == {Rec(p) : p \in {q \in ProgsR : Mine(q) \/ (AllSuspects /\ Outcome(Gen(q)) \notin {"ok", "fail"})}}
         \cup {Rec0(p, d) : p \in NamedProgs, d \in DirNames \ {"p"}}
ASSUME ndJsonSerialize(ScenOut, SetToSeq(Scen))
ASSUME PrintT(<<"exported", Cardinality(Scen), "sensitive-not-selected">>)
VARIABLE x
Init == x = 0
Next == x' = x
=============================================================================
