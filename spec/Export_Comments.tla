-------------------------- MODULE Export_Comments --------------------------
EXTENDS CommentsUniverse, Json, SequencesExt
CONSTANTS ScenOut, Deep
SomeItems == IF Deep THEN Items ELSE {"//goverter:name A", "// text goverter:name D", "// goverter:name E  ", "/*\ngoverter:name H\n*/", "/*\n * goverter:name I\n */", "// goverter:ignore X Y", "//goverter:", "//"}
AllMarkers == ConvMarkers \cup VarMarkers \cup NonMarkers
G1 == {<<m>> : m \in AllMarkers} \cup {<<m, a>> : m \in AllMarkers, a \in SomeItems} \cup {<<a, m>> : m \in AllMarkers, a \in SomeItems}
       \cup (IF Deep THEN {<<a, m, b>> : m \in {"// goverter:converter", "//goverter:variables"}, a \in SomeItems, b \in SomeItems} ELSE {})
S1 == [kind : Kinds, attach : Attachments, group : G1, mgroup : {<<>>}, mattach : {"doc"}]
S2 == [kind : {"type-single", "var-block"}, attach : {"doc"}, group : {<<"// goverter:converter">>, <<"// goverter:variables">>}, mgroup : MethodGroups, mattach : {"doc", "trailing", "detached"}]
Scen == S1 \cup S2
Rec(d) == [kind |-> d.kind, attach |-> d.attach, group |-> d.group, mgroup |-> d.mgroup, mattach |-> d.mattach, expect |-> Expect(d)]
ASSUME ndJsonSerialize(ScenOut, SetToSeq({Rec(d) : d \in Scen}))
ASSUME PrintT(<<"exported", Cardinality(Scen)>>)
VARIABLE x
Init == x = 0
Next == x' = x
=============================================================================
