---------------------------- MODULE Export_Enum ----------------------------
EXTENDS EnumSpec, Json, SequencesExt
CONSTANTS ScenOut, MaxLen
Rec(p) == [kind |-> p.kind, tr |-> p.tr, tr2 |-> T2(p), same |-> p.same, src |-> p.src, tgt |-> p.tgt, map |-> p.map, unknown |-> p.unknown, rootErr |-> p.rootErr, pos |-> p.pos, enumOn |-> p.enumOn, excl |-> IF "excl" \in DOMAIN p THEN p.excl ELSE "none",
           ok |-> EnumGenOK(p), inputs |-> Inputs]
ASSUME ndJsonSerialize(ScenOut, SetToSeq({Rec(p) : p \in Progs(MaxLen)}))
ASSUME PrintT(<<"exported", Cardinality(Progs(MaxLen))>>)
VARIABLE x
Init == x = 0
Next == x' = x
=============================================================================
