-------------------------- MODULE Export_Formats --------------------------
EXTENDS Formats, Json, SequencesExt
CONSTANT ScenOut
Rec(p) == [fmt |-> p.fmt, bk |-> p.bk, sibling |-> p.sibling, ext |-> p.ext, rootErr |-> p.rootErr, how |-> p.how, ok |-> GenOK(p)]
ASSUME ndJsonSerialize(ScenOut, SetToSeq({Rec(p) : p \in Progs}))
ASSUME PrintT(<<"exported", Cardinality(Progs)>>)
VARIABLE x
Init == x = 0
Next == x' = x
=============================================================================
