---------------------------- MODULE Export_Namer ----------------------------
EXTENDS Namer, Json, SequencesExt
CONSTANTS ScenOut, MaxLen
RECURSIVE SeqsUpTo(_)
SeqsUpTo(k) == IF k = 0 THEN {<<>>} ELSE SeqsUpTo(k - 1) \cup {Append(a, o) : a \in {b \in SeqsUpTo(k - 1) : Len(b) = k - 1}, o \in Ops}
\* ... plus the long run of index names past z (18 single letters, then i2, j2, ...) followed by colliding requests
Long == {<<[op |-> "index18", arg |-> ""]>> \o t : t \in {s \in SeqsUpTo(2) : Len(s) >= 1}}
         \cup {<<[op |-> "register", arg |-> "i2"], [op |-> "index18", arg |-> ""], [op |-> "index", arg |-> ""], [op |-> "index", arg |-> ""]>>}
Scen == {[ops |-> s] : s \in {t \in SeqsUpTo(MaxLen) : Len(t) >= 1} \cup Long}
ASSUME ndJsonSerialize(ScenOut, SetToSeq(Scen))
ASSUME PrintT(<<"exported", Cardinality(Scen)>>)
VARIABLE x
Init == x = 0
Next == x' = x
=============================================================================
