-------------------------- MODULE Export_PkgWide --------------------------
EXTENDS PkgWide, Json, SequencesExt
CONSTANT ScenOut
ASSUME ndJsonSerialize(ScenOut, SetToSeq(Progs))
ASSUME PrintT(<<"exported", Cardinality(Progs)>>)
VARIABLE x
Init == x = 0
Next == x' = x
=============================================================================
