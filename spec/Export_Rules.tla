---------------------------- MODULE Export_Rules ----------------------------
(* Scenario export of the F-Rules family: every (source, target, settings) of the bounded universe with
   the inputs TLC enumerates for it.  These are the "TLC-generated behaviours" replayed into the real
   generator and the real generated code.                                                           *)
EXTENDS RulesUniverse, Json, SequencesExt
CONSTANTS Leaves, Depth, Width, OutFile, Part, Parts, OnlyConv

Univ == GrowN(Leaves, Depth)
USeq == SetToSeq(Univ)
Sources == {USeq[i] : i \in {j \in DOMAIN USeq : j % Parts = Part}}     \* this JVM's share of the universe
Pairs == {<<a, b>> : a \in Sources, b \in Univ}
Rec(a, b, c) ==
  LET ir == PlanTop(c, a, b) IN
  [s |-> a, t |-> b, cfg |-> c, conv |-> Conv(c, a, b), plan |-> ~IsFail(ir),
   ins |-> IF IsFail(ir) THEN <<>> ELSE SetToSeq(Vals(a, Width))]
All == {Rec(p[1], p[2], c) : p \in Pairs, c \in Cfgs}
Scen == IF OnlyConv THEN {r \in All : r.conv \/ r.plan} ELSE All
ASSUME ndJsonSerialize(OutFile, SetToSeq(Scen))
ASSUME PrintT(<<"exported", Cardinality(Scen), "terms", Cardinality(Univ)>>)
VARIABLE x
Init == x = 0
Next == x' = x
=============================================================================
