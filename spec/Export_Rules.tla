---------------------------- MODULE Export_Rules ----------------------------
(* Scenario export of the F-Rules family: every (source, target, settings) of the bounded universe with
   the inputs TLC enumerates for it.  These are the "TLC-generated behaviours" replayed into the real
   generator and the real generated code.                                                           *)
EXTENDS RulesUniverse, Json, SequencesExt
CONSTANTS Leaves, Depth, Width, OutFile, Part, Parts, OnlyConv, Mode

AllPairs == PairsOf(Mode, Leaves, Depth)
USeq == SetToSeq({p[1] : p \in AllPairs})
Sources == {USeq[i] : i \in {j \in DOMAIN USeq : j % Parts = Part}}     \* this JVM's share of the universe, by a cheap structural hash.  (TLC re-evaluates a definition at every
\* reference, so anything like Seq[i] or x \in Def inside a comprehension is quadratic -- measured: minutes.)
RECURSIVE TermHash(_)
TermHash(t) ==
  CASE t.k = "basic" -> Len(t.b)
    [] t.k = "named" -> 3 + Len(t.id)
    [] t.k = "ptr" -> (7 + 2 * TermHash(t.e)) % 1009
    [] t.k = "slice" -> (11 + 3 * TermHash(t.e)) % 1009
    [] t.k = "array" -> (13 + 5 * TermHash(t.e)) % 1009
    [] t.k = "map" -> (17 + 7 * TermHash(t.key) + 11 * TermHash(t.e)) % 1009
    [] t.k = "struct" -> IF Len(t.fs) = 0 THEN 19 ELSE (23 + Len(t.fs[1].n) + 13 * TermHash(t.fs[1].t)) % 1009
    [] OTHER -> 29
Pairs == {p \in PairsOf(Mode, Leaves, Depth) : (TermHash(p[1]) + 3 * TermHash(p[2])) % Parts = Part}
Rec(a, b, c) ==
  LET ir == PlanTop(c, a, b) IN
  [s |-> a, t |-> b, cfg |-> c, conv |-> Conv(c, a, b), plan |-> ~IsFail(ir),
   ins |-> IF IsFail(ir) THEN <<>> ELSE SetToSeq(Vals(a, Width))]
All == {Rec(p[1], p[2], c) : p \in Pairs, c \in Cfgs}
Scen == IF OnlyConv THEN {r \in All : r.conv \/ r.plan} ELSE All
ASSUME ndJsonSerialize(OutFile, SetToSeq(Scen))
ASSUME PrintT(<<"exported", Cardinality(Scen)>>)
VARIABLE x
Init == x = 0
Next == x' = x
=============================================================================
