------------------------------ MODULE Export_Run ------------------------------
(* Scenario export of the F-Run family: histories of steps (kind "hist"), output placements (kind "place"),
   and argument vectors (kind "argv").                                                                  *)
EXTENDS RunModel, Files, Cli, Json
CONSTANTS ScenOut, HistLen, Variants, ArgLen, WithPlace, WithArgv, BadKinds, LayoutSet, TagSet

GenOps == {[op |-> "gen", v |-> x] : x \in Variants}
OtherOps == {[op |-> "edit"], [op |-> "break"], [op |-> "bloat"], [op |-> "scramble"], [op |-> "delete"], [op |-> "guard"], [op |-> "unbad"]} \cup {[op |-> "bad", k |-> k] : k \in BadKinds}
AllOps == GenOps \cup OtherOps
RECURSIVE SeqsUpTo(_)
SeqsUpTo(n) == IF n = 0 THEN {<<>>} ELSE SeqsUpTo(n - 1) \cup {Append(a, o) : a \in {b \in SeqsUpTo(n - 1) : Len(b) = n - 1}, o \in AllOps}
\* histories worth running: they end with a goverter run
Hists == {Append(h, g) : h \in SeqsUpTo(HistLen - 1), g \in GenOps}
HistScen == {[kind |-> "hist", layout |-> l, tags |-> t, steps |-> h] : l \in LayoutSet, t \in TagSet, h \in Hists}

Decls == {<<>>, <<"a">>, <<"a", "b">>}
\* other-errors: the existing package (of another name) does not type-check under the goverter tag, as hand-written code that uses
\* the generated converter does not
Exists == {"none", "same", "other", "other-errors"}
PlaceScen == {[kind |-> "place", decl |-> d, ofile |-> f, opkg |-> p, exist |-> e, cwd |-> c, conv2 |-> c2,
               outdir |-> OutDir(d, f, c), outfile |-> OutFile(f), pkg |-> PkgName(d, "src", f, p, e, c)] :
               d \in Decls, f \in OFiles, p \in OPkgs, e \in Exists, c \in CwdForms, c2 \in {"none", "same-file-same-pkg", "same-file-other-pkg", "same-file-other-name", "other-file-same-pkg", "vars", "vars-dotted", "vars-path-pkg", "two-opkg-lines"}}
             \cup {[kind |-> "place", decl |-> <<>>, ofile |-> "default", opkg |-> "absent", exist |-> "none", cwd |-> c, conv2 |-> "global-ofile",
                    outdir |-> <<>>, outfile |-> "x.go", pkg |-> ""] : c \in {"chdir-root", "flag-root"}}
PlaceOK == {s \in PlaceScen : ValidPlace(s.decl, s.ofile, s.exist, s.cwd)}
ArgvScen == {[kind |-> "argv", argv |-> a] : a \in Argvs(ArgLen)}

\* the header of a fresh output under every combination of the two flags: -build-tags (absent / "" / one tag / two tags) and
\* -output-constraint (absent / "" / the complement of the tag / something else); the tag itself reaches the loader through GOFLAGS
HdrScen == {[kind |-> "hdr", tagflag |-> t, consflag |-> c] : t \in {"absent", "empty", "vtag", "vtag,other"}, c \in {"absent", "empty", "!vtag", "!xyz"}}
ASSUME ndJsonSerialize(ScenOut, SetToSeq(HistScen) \o SetToSeq(HdrScen) \o (IF WithPlace THEN SetToSeq(PlaceOK) ELSE <<>>) \o (IF WithArgv THEN SetToSeq(ArgvScen) ELSE <<>>))
ASSUME PrintT(<<"exported", Cardinality(HistScen), Cardinality(PlaceOK), Cardinality(ArgvScen)>>)
VARIABLE x
Init == x = 0
Next == x' = x
=============================================================================
