--------------------------- MODULE Export_Settings ---------------------------
EXTENDS SettingsUniverse, Json, SequencesExt
CONSTANT OutFile
Texts(lines) == [i \in DOMAIN lines |-> LineText(lines[i])]
Rec(sc) == [kind |-> sc.kind, cli |-> sc.cli, conv |-> sc.conv, meth |-> sc.meth, sib |-> sc.sib,
            cliText |-> Texts(sc.cli), convText |-> Texts(sc.conv), methText |-> Texts(sc.meth), sibText |-> Texts(sc.sib)]
ASSUME ndJsonSerialize(OutFile, SetToSeq({Rec(sc) : sc \in Scenarios}))
ASSUME PrintT(<<"exported", Cardinality(Scenarios)>>)
VARIABLE x
Init == x = 0
Next == x' = x
=============================================================================
