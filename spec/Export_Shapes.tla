--------------------------- MODULE Export_Shapes ---------------------------
EXTENDS Shapes, Json, SequencesExt
CONSTANT ScenOut
ASSUME ndJsonSerialize(ScenOut, SetToSeq({[kind |-> "prog", name |-> p.name, src |-> p.src] : p \in Progs}))
ASSUME PrintT(<<"exported", Cardinality(Progs)>>)
VARIABLE x
Init == x = 0
Next == x' = x
=============================================================================
