-------------------------- MODULE Export_Signature --------------------------
EXTENDS Signature, Json, SequencesExt
CONSTANTS ScenOut, MaxParams
Rec(s) == [params |-> s.params, results |-> s.results, use |-> s.use, layout |-> s.layout, place |-> s.place, valid |-> ValidX(s)]
ASSUME ndJsonSerialize(ScenOut, SetToSeq({Rec(s) : s \in Sigs(MaxParams) \cup ExtSigs}))
ASSUME PrintT(<<"exported", Cardinality(Sigs(MaxParams) \cup ExtSigs)>>)
VARIABLE x
Init == x = 0
Next == x' = x
=============================================================================
