--------------------------- MODULE Export_Struct ---------------------------
EXTENDS Fields, Update, Default, Json, SequencesExt
CONSTANT ScenOut
FRec(p) == [kind |-> "field", prog |-> p]
ARec(a) == [kind |-> "acc", side |-> a.side, setting |-> a.setting]
XRec(q) == [kind |-> "fieldx", prog |-> q]
DRec(p) == [kind |-> "default", prog |-> p]
URec(p) == [kind |-> "update", prog |-> p, vals |-> SetToSeq({SetToSeq(v) : v \in Valuations})]
ASSUME \A p \in UProgs, nz \in Valuations, f \in AllUFields : Must(p, f, nz) \in {"open", Oper(p, f, nz)}
ASSUME ndJsonSerialize(ScenOut, SetToSeq({FRec(p) : p \in Progs}) \o SetToSeq({ARec(a) : a \in AccProgs}) \o SetToSeq({XRec(q) : q \in XProgs}) \o SetToSeq({URec(p) : p \in UProgs}) \o SetToSeq({DRec(p) : p \in {q \in DProgs : DValid(q)}}) \o SetToSeq({[kind |-> "update-cat", prog |-> p] : p \in CatProgs}) \o <<[kind |-> "default-rebuild", prog |-> [x |-> "rebuild"]], [kind |-> "update-iface", prog |-> [x |-> "iface"]], [kind |-> "default-list", prog |-> [x |-> "list"]], [kind |-> "default-update-rec", prog |-> [x |-> "rec"]], [kind |-> "default-update-shared", prog |-> [x |-> "shared"]], [kind |-> "default-update-shared", prog |-> [x |-> "shared-value-source"]], [kind |-> "default-map", prog |-> [x |-> "map"]], [kind |-> "default-fallible", prog |-> [x |-> "fallible"]], [kind |-> "default-declared-inner", prog |-> [x |-> "ptrptr-update"]], [kind |-> "default-declared-inner", prog |-> [x |-> "value-to-ptr"]], [kind |-> "mapfunc-parent", prog |-> [x |-> "parent"]], [kind |-> "update-odd", prog |-> [x |-> "noncomparable-struct"]], [kind |-> "update-odd", prog |-> [x |-> "dot-pointer-source"]], [kind |-> "update-odd", prog |-> [x |-> "pointer-source-fault"]], [kind |-> "update-tnc", prog |-> [x |-> "target-noncomparable"]], [kind |-> "update-odd", prog |-> [x |-> "underlying-fallible-top"]], [kind |-> "update-odd", prog |-> [x |-> "ignoremissing-map-value"]], [kind |-> "update-odd", prog |-> [x |-> "default-unexported"]], [kind |-> "mapfunc-wrap", prog |-> [x |-> "plain"]], [kind |-> "mapfunc-wrap", prog |-> [x |-> "using"]], [kind |-> "update-wrap", prog |-> [x |-> "plain"]], [kind |-> "update-wrap", prog |-> [x |-> "using"]]>>)
ASSUME PrintT(<<"exported", Cardinality(Progs), Cardinality(AccProgs), Cardinality(UProgs)>>)
VARIABLE x
Init == x = 0
Next == x' = x
=============================================================================
