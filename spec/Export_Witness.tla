--------------------------- MODULE Export_Witness ---------------------------
EXTENDS Witness, Json, SequencesExt
CONSTANT ScenOut
ASSUME ndJsonSerialize(ScenOut, SetToSeq({[kind |-> w.kind, pc |-> w.pc, p1 |-> w.p1, p2 |-> w.p2] : w \in WProgs \cup WProgsR \cup WProgsS \cup WProgsE \cup WProgsP \cup WProgsZ \cup WProgsD}))
ASSUME PrintT(<<"exported", Cardinality(WProgs \cup WProgsR \cup WProgsS \cup WProgsE \cup WProgsP \cup WProgsZ \cup WProgsD)>>)
VARIABLE x
Init == x = 0
Next == x' = x
=============================================================================
