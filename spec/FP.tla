--------------------------------- MODULE FP ---------------------------------
(* Printing of fingerprints by the Obs_* modules, one flat string per fingerprint (TLC pretty-prints and wraps
   tuples, strings it does not).  A fingerprint is <<property, class, cause, record id>>.                     *)
EXTENDS TLC, Sequences, Naturals
EmitFP(f) == \A x \in f : PrintT("FP|" \o x[1] \o "|" \o x[2] \o "|" \o x[3] \o "|" \o ToString(x[4]))
EmitSummary(n) == PrintT("SUMMARY|" \o ToString(n))
=============================================================================
