------------------------------- MODULE Fields -------------------------------
(* Struct field selection (builder/struct.go Struct.Assign, mapField, parseAutoMap; xtype.FindField) for a target
   struct with one int field `tn`, over a source struct with fields Ab / AB / B (int), Inner (struct with Q / Ab),
   P (pointer to PS with V int).  Every source position carries a distinct run-time token.

   OpChosen  transcribes the code: field settings first (ignore, map path), then FindField: exact matches are
             collected from the struct *and* from all autoMap sources together, case-insensitive ones only if
             there is no exact one; exactly one candidate is taken, several are an error, none is NoMatch
             (skipped under ignoreMissing).
   Chosen    is the statement of C05: map, else same-named source field, else a field found via autoMap;
             matchIgnoreCase prefers an exact match and treats several candidates as an error.  Where statement and
             documentation read differently (a same-named direct field *and* an exact autoMap match) it is "open".
   Constant-level.                                                                                          *)
EXTENDS Naturals, Sequences, FiniteSets, TLC

LowerOf == [n \in {"Ab", "AB", "B", "Q", "V", "P", "Inner"} |->
             CASE n = "Ab" -> "ab" [] n = "AB" -> "ab" [] n = "B" -> "b" [] n = "Q" -> "q" [] n = "V" -> "v" [] n = "P" -> "p" [] OTHER -> "inner"]
Tok == [p \in {"Ab", "AB", "B", "Inner.Q", "Inner.Ab", "P.V"} |->
          CASE p = "Ab" -> 1 [] p = "AB" -> 2 [] p = "B" -> 3 [] p = "Inner.Q" -> 4 [] p = "Inner.Ab" -> 6 [] OTHER -> 5]
InnerKinds == {"none", "Q", "Ab", "QAb"}
InnerFields(ik) == CASE ik = "none" -> {} [] ik = "Q" -> {"Q"} [] ik = "Ab" -> {"Ab"} [] OTHER -> {"Q", "Ab"}
Direct(p) == (IF p.h1 THEN {"Ab"} ELSE {}) \cup (IF p.h2 THEN {"AB"} ELSE {}) \cup {"B"}
DirectNames(p) == Direct(p) \cup {"P"} \cup (IF p.inner # "none" THEN {"Inner"} ELSE {})
Maps == {"none", "B", "P.V", "Z", "Inner.Q"}
Progs == {[h1 |-> a, h2 |-> b, inner |-> ik, tn |-> t, map |-> m, ignore |-> ig, mic |-> mc, im |-> im, am |-> am] :
            a \in BOOLEAN, b \in BOOLEAN, ik \in InnerKinds, t \in {"Ab", "AB", "Q", "V", "B"}, m \in Maps,
            ig \in BOOLEAN, mc \in BOOLEAN, im \in BOOLEAN, am \in BOOLEAN}

Match(p, n, exact) == IF exact THEN n = p.tn ELSE LowerOf[n] = LowerOf[p.tn]
DirectC(p, exact) == {n \in DirectNames(p) : Match(p, n, exact)}
AutoC(p, exact) == IF p.am /\ p.inner # "none" THEN {"Inner." \o n : n \in {m \in InnerFields(p.inner) : Match(p, m, exact)}} ELSE {}
One(S) == CHOOSE x \in S : TRUE

\* ---- operational (code order)
OpChosen(p) ==
  IF p.am /\ p.inner = "none" THEN [k |-> "fail", why |-> "automap-missing"]          \* parseAutoMap runs before any field
  ELSE IF p.ignore THEN [k |-> "ignored"]
  ELSE IF p.map = "Z" THEN [k |-> "fail", why |-> "map-source-missing"]
  ELSE IF p.map = "Inner.Q" /\ "Q" \notin InnerFields(p.inner) THEN [k |-> "fail", why |-> "map-source-missing"]
  ELSE IF p.map # "none" THEN [k |-> "path", p |-> p.map]
  ELSE LET ex == DirectC(p, TRUE) \cup AutoC(p, TRUE) IN
       IF Cardinality(ex) = 1 THEN [k |-> "path", p |-> One(ex)]
       ELSE IF Cardinality(ex) > 1 THEN [k |-> "fail", why |-> "ambiguous"]
       ELSE LET ci == IF p.mic THEN DirectC(p, FALSE) \cup AutoC(p, FALSE) ELSE {} IN
            IF Cardinality(ci) = 1 THEN [k |-> "path", p |-> One(ci)]
            ELSE IF Cardinality(ci) > 1 THEN [k |-> "fail", why |-> "ambiguous"]
            ELSE IF p.im THEN [k |-> "skipped"] ELSE [k |-> "fail", why |-> "missing"]
NonInt(path) == path \in {"P", "Inner"}
OpOutcome(p) == LET c == OpChosen(p) IN IF c.k = "path" /\ NonInt(c.p) THEN [k |-> "fail", why |-> "mismatch"] ELSE c

\* ---- declarative (C05)
Chosen(p) ==
  IF p.am /\ p.inner = "none" THEN [k |-> "fail"]                                       \* unusable autoMap path: never silently dropped
  ELSE IF p.ignore THEN [k |-> "ignored"]
  ELSE IF p.map \in {"Z"} \/ (p.map = "Inner.Q" /\ "Q" \notin InnerFields(p.inner)) THEN [k |-> "fail"]   \* unknown source field / unusable path
  ELSE IF p.map # "none" THEN [k |-> "path", p |-> p.map]
  ELSE LET same == DirectC(p, TRUE) auto == AutoC(p, TRUE) IN
       IF same # {} /\ auto # {} THEN [k |-> "open"]                                      \* statement: the direct field; documentation: ambiguous
       ELSE IF same # {} THEN [k |-> "path", p |-> One(same)]
       ELSE IF Cardinality(auto) = 1 THEN [k |-> "path", p |-> One(auto)]
       ELSE IF Cardinality(auto) > 1 THEN [k |-> "fail"]
       ELSE LET ci == IF p.mic THEN DirectC(p, FALSE) \cup AutoC(p, FALSE) ELSE {} IN
            IF Cardinality(ci) = 1 THEN [k |-> "path", p |-> One(ci)]
            ELSE IF Cardinality(ci) > 1 THEN [k |-> "fail"]                                \* several candidates are an error
            ELSE IF p.im THEN [k |-> "skipped"] ELSE [k |-> "fail"]                      \* no source: error unless ignoreMissing
Outcome(p) == LET c == Chosen(p) IN IF c.k = "path" /\ NonInt(c.p) THEN [k |-> "fail"] ELSE c
\* expected run-time value of the target field for the input with P set / with P nil
Expect(p) == LET c == Outcome(p) IN
  IF c.k = "path" THEN [full |-> Tok[c.p], pnil |-> IF c.p = "P.V" THEN 0 ELSE Tok[c.p]] ELSE [full |-> 0, pnil |-> 0]
\* do the operational and the declarative layer agree on a program?
Agree(p) == LET o == OpOutcome(p) d == Outcome(p) IN d.k = "open" \/ (o.k = d.k /\ (o.k = "path" => o.p = d.p))

\* ---------------------------------------------------------------- further C05 programs (small hand-shaped families)
(* unknown target: a map / ignore line naming a target field that does not exist must fail, whatever ignoreMissing says.
   method: source struct with field NAME (token 1) and/or an argument-less method Name / NaMe (token 2), target field
           Name: exact name beats case-insensitive candidates, several candidates are an error.
   reuse:  a field setting on the pointer-variant method Conv(ptr S) ptr T while a second declared method converts the struct
           pair S -> T itself (as slice element or directly): the setting would be bypassed, generation must fail.   *)
XProgs == {[x |-> "unknown-target", line |-> l, im |-> i] : l \in {"map B Zz", "ignore Zz", "map Zz Zz"}, i \in BOOLEAN}
            \cup {q \in {[x |-> "method", field |-> f, meth |-> m, mic |-> c] : f \in {"none", "NAME", "Name"}, m \in {"none", "Name", "NaMe"}, c \in BOOLEAN} :
                      ~(q.field = "Name" /\ q.meth = "Name")}        \* Go forbids a field and a method of the same name
            \* field settings on a method whose target is not a struct or a pointer to one cannot take effect: generation must fail
            \cup {[x |-> "nonstruct", line |-> l, tgt |-> t] : l \in {"map Inner.B A", "ignore A", "ignoreMissing", "matchIgnoreCase", "ignoreUnexported", "autoMap Inner", "update:ignoreZeroValueField"},
                                                               t \in {"list", "ptrptr", "map"}}
            \* misc: (nested) `map X Name` on the method must not reach into the unnamed struct field Contact{Name}: vals = <<Name, Contact.Name>>;
            \*       (two-automap) two autoMap lines both count: vals = <<Street (from Home), Title (from Job)>>;
            \*       (path-slice) `map Meta.Tags Tags` through a pointer: the slice arrives, and nil Meta gives nil Tags without a panic
            \cup {[x |-> "misc", sub |-> sb] : sb \in {"nested", "two-automap", "path-slice"}}
            \* method-ctx: the source of target field Name is the source struct's method Name(Loc) / Name(l Loc): every parameter of a struct
            \*             method is a context, named or not; avail: the converter method has a context of that type to hand on
            \cup {[x |-> "method-ctx", named |-> nm, avail |-> av] : nm \in BOOLEAN, av \in BOOLEAN}
            \cup {[x |-> "reuse", setting |-> st, second |-> sc] : st \in {"none", "map", "ignore", "autoMap"}, sc \in {"none", "slice", "value"}}
            \* reuse-ptrval: the same with Conv(ptr S) T, which needs useZeroValueOnPointerInconsistency -- given on that method only
            \cup {[x |-> "reuse-ptrval", setting |-> st, second |-> sc] : st \in {"none", "map", "ignore"}, sc \in {"none", "slice", "value"}}
XExpect(q) ==
  CASE q.x \in {"unknown-target", "nonstruct"} -> [gen |-> "fail", val |-> 0]
    [] q.x = "misc" -> [gen |-> "ok", val |-> 0, vals |-> CASE q.sub = "nested" -> <<1, 3>> [] q.sub = "two-automap" -> <<4, 5>> [] OTHER -> <<7, 99>>]
    [] q.x \in {"reuse", "reuse-ptrval"} -> [gen |-> IF q.setting # "none" /\ q.second # "none" THEN "fail" ELSE "ok", val |-> 0]
    [] q.x = "method-ctx" -> IF q.avail THEN [gen |-> "ok", val |-> IF q.named THEN 4 ELSE 2] ELSE [gen |-> "fail", val |-> 0]
    [] q.x = "method" ->
         LET exact == (IF q.field = "Name" THEN {"f"} ELSE {}) \cup (IF q.meth = "Name" THEN {"m"} ELSE {})
             ci == IF q.mic THEN (IF q.field = "NAME" THEN {"f"} ELSE {}) \cup (IF q.meth = "NaMe" THEN {"m"} ELSE {}) ELSE {}
             pick == IF exact # {} THEN exact ELSE ci IN
         IF Cardinality(pick) = 1 THEN [gen |-> "ok", val |-> IF pick = {"f"} THEN 1 ELSE 2] ELSE [gen |-> "fail", val |-> 0]

\* ---------------------------------------------------------------- accessibility programs (C03 / C05)
\* target struct TQ in package q, which is not the output package, with an unexported field secret; source SQ in
\* package q with an unexported field hidden; the setting selects how secret or the exported field Open is fed
\* same-package: source SS and target TS {Open, secret} declared in the package the output is written to: secret is accessible there
AccProgs == {[side |-> sd, setting |-> st] : sd \in {"target-unexported", "source-unexported"},
               st \in {"none", "ignore", "ignoreUnexported", "map", "mapfunc", "ignoreMissing"}}
            \cup {[side |-> "same-package", setting |-> st] : st \in {"none", "ignore", "ignoreUnexported"}}
            \* mappath / automap: the unexported field is an *intermediate* element of the path (map inner.X Open, autoMap inner)
            \cup {[side |-> "source-unexported", setting |-> st] : st \in {"mappath", "automap"}}
\* same-package: the value secret must have for the source {Open: 5, secret: 6}: copied, or left unassigned by ignore / ignoreUnexported
AccSecret(a) == IF a.setting = "none" THEN 6 ELSE 0
AccExpect(a) ==
  IF a.side = "same-package" THEN "ok"
  ELSE IF a.side = "target-unexported"
  THEN (IF a.setting \in {"ignore", "ignoreUnexported"} THEN "ok" ELSE "fail")      \* secret would have to be written from another package
  ELSE (IF a.setting \in {"map", "mapfunc"} THEN "fail"                             \* hidden would have to be read from another package
        ELSE IF a.setting \in {"ignore", "ignoreMissing"} THEN "ok" ELSE "fail")    \* Open has no source otherwise
=============================================================================
