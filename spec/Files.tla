------------------------------- MODULE Files -------------------------------
(* L4: where the code of a converter lands (generator/filemanager.go getOutputDir, config/converter.go
   initConverter / resolveOutputPackage, config/package.go resolvePackage, parse.File, jennifer's guessAlias).
   Paths are sequences of components relative to the module root; Mod is the module path.  Constant-level. *)
EXTENDS Naturals, Sequences, FiniteSets, TLC, SequencesExt

Mod == "v.test/f"
Ch(s, i) == SubSeq(s, i, i)
LowerOf == [c \in {"M", "P", "X", "A"} |-> CASE c = "M" -> "m" [] c = "P" -> "p" [] c = "X" -> "x" [] c = "A" -> "a"]
IsAlnumLower(c) == c \in {"a","b","c","d","e","f","g","h","i","j","k","l","m","n","o","p","q","r","s","t","u","v","w","x","y","z","0","1","2","3","4","5","6","7","8","9"}
IsDigit(c) == c \in {"0","1","2","3","4","5","6","7","8","9"}
RECURSIVE NormName(_), DropDigits(_)
NormName(s) == IF s = "" THEN "" ELSE
               LET c == IF Ch(s, 1) \in DOMAIN LowerOf THEN LowerOf[Ch(s, 1)] ELSE Ch(s, 1) IN
               (IF IsAlnumLower(c) THEN c ELSE "") \o NormName(SubSeq(s, 2, Len(s)))
DropDigits(s) == IF s # "" /\ IsDigit(Ch(s, 1)) THEN DropDigits(SubSeq(s, 2, Len(s))) ELSE s
\* the package name jennifer derives from the last path element when none is given
GuessAlias(elem) == LET a == DropDigits(NormName(elem)) IN IF a = "" THEN "pkg" ELSE a

Parent(p) == SubSeq(p, 1, Len(p) - 1)
\* forms of goverter:output:file
\* (deep/er/x.go: two directory levels that do not exist yet)
OFiles == {"default", "./x.go", "../o/x.go", "sub/x.go", "deep/er/x.go", "@cwd/o/x.go", "@cwd/My-Pkg_1/x.go", "abs"}
\* forms of goverter:output:package
OPkgs == {"absent", ":nm", "path", "path:nm"}
\* the working directory goverter was given: the process directory, or -cwd
CwdForms == {"chdir-root", "flag-root", "chdir-decl"}
Cwd(decl, cf) == IF cf = "chdir-decl" THEN decl ELSE <<>>

\* directory (components below the module root) and file name of the output of an *interface* converter
OutDir(decl, of, cf) ==
  CASE of = "default" -> decl \o <<"generated">>
    [] of = "./x.go" -> decl
    [] of = "../o/x.go" -> Parent(decl) \o <<"o">>
    [] of = "sub/x.go" -> decl \o <<"sub">>
    [] of = "deep/er/x.go" -> decl \o <<"deep", "er">>
    [] of = "@cwd/o/x.go" -> Cwd(decl, cf) \o <<"o">>
    [] of = "@cwd/My-Pkg_1/x.go" -> Cwd(decl, cf) \o <<"My-Pkg_1">>
    [] of = "abs" -> <<"absout">>                            \* an absolute path below the module root
OutFile(of) == IF of = "default" THEN "generated.go" ELSE "x.go"
\* a variables block lands next to its file, <file>.gen.go, in its own package
VarOutFile(file) == SubSeq(file, 1, Len(file) - 3) \o ".gen.go"

(* package clause: output:package NAME part, else the package already visible at the output location,
   else the normalised last element of the package path (the path given, else the output directory)      *)
PkgName(decl, declName, of, op, ex, cf) ==
  LET dir == OutDir(decl, of, cf) IN
  IF op \in {":nm", "path:nm"} THEN "nm"
  ELSE IF dir = decl THEN declName                           \* the declaring package already lives there
  ELSE IF ex = "same" THEN GuessAlias(Last(dir))
  ELSE IF ex \in {"other", "other-errors"} THEN "othername"
  ELSE IF op = "path" THEN "zz"                              \* output:package v.test/f/zz
  ELSE GuessAlias(Last(dir))
ValidPlace(decl, of, ex, cf) == /\ (of = "../o/x.go" => decl # <<>>)
                                /\ (OutDir(decl, of, cf) = decl => ex = "none")
                                /\ OutDir(decl, of, cf) # <<>>
=============================================================================
