------------------------------ MODULE Formats ------------------------------
(* Output formats (config output:format / goverter:variables; generator/generate.go appendGenerated): the same conversions emitted as
     struct      type <Name>Impl struct{} with one method per declared method (receiver c) and lower-case helper methods
     function    package-level functions named like the declared methods, helpers as package-level functions
     variables   a goverter:variables block: func init() assigns a function literal to every variable, helpers as
                 package-level functions; the default output file is <file>.gen.go in the declaring package
   Program: A{V int; B <bk>} -> A2{V string; B <bk>2} with B{V int} -> B2{V string}; V int -> string needs the extend function.
     bk       "val" (B by value), "ptr" (pointer to B: a generated helper), "slice" ([]B: the element conversion is a helper or the sibling)
     sibling  a second declared method / variable for B -> B2, which the first must call
     ext      "plain" E(v int) string | "err" E(v int) (string, error) | "iface" E(c C, v int) string -- a custom function whose
              first parameter is the converter interface receives the converter; only the struct format has one
     rootErr  the declared conversions have an error result
   Constant-level.                                                                                                              *)
EXTENDS Naturals, Sequences, FiniteSets, TLC
Fmts == {"struct", "function", "variables"}
\* how: the custom function is given with `extend` (used wherever int -> string occurs) or with `map V | E` on the declared conversion
\*      of A (B2.V is then an int and B.V is copied)
Progs == [fmt : Fmts, bk : {"val", "ptr", "slice"}, sibling : BOOLEAN, ext : {"plain", "err", "iface"}, rootErr : BOOLEAN, how : {"extend", "mapfunc"}]

\* ---- what must happen
\* generation fails when an error would be dropped, and when the converter value is asked for where none exists
GenOK(p) == (p.ext = "err" => p.rootErr) /\ (p.ext = "iface" => p.fmt = "struct")
\* number of generated helpers: the pointer variant; the element / value conversion of B unless a sibling is declared
Helpers(p) == (IF p.bk = "ptr" THEN 1 ELSE 0) + (IF p.bk # "ptr" /\ ~p.sibling THEN 1 ELSE 0)
Declared(p) == IF p.sibling THEN 2 ELSE 1
\* top-level declarations of the emitted file, as a bag [kind |-> count]
Decls(p) ==
  CASE p.fmt = "struct" -> [struct |-> 1, method |-> Declared(p) + Helpers(p), func |-> 0, init |-> 0]
    [] p.fmt = "function" -> [struct |-> 0, method |-> 0, func |-> Declared(p) + Helpers(p), init |-> 0]
    [] OTHER -> [struct |-> 0, method |-> 0, func |-> Helpers(p), init |-> 1]
\* the value the conversion computes for A{V: 5, B: B{V: 7}} (token of A2.V, token of the B2.V reached through B)
Result(p) == IF p.how = "extend" THEN <<"E(5)", "E(7)">> ELSE <<"E(5)", "7">>
\* ---- structure of the emitter (operational reading): one fold over the methods in name order
Emit(p) ==
  LET names == IF p.sibling THEN <<"Conv", "ConvB">> ELSE <<"Conv">>
      helpers == (IF p.bk = "ptr" THEN <<"pPBToPPB2">> ELSE <<>>) \o (IF p.bk # "ptr" /\ ~p.sibling THEN <<"pBToPB2">> ELSE <<>>) IN
  CASE p.fmt = "struct" -> [struct |-> 1, method |-> Len(names) + Len(helpers), func |-> 0, init |-> 0]
    [] p.fmt = "function" -> [struct |-> 0, method |-> 0, func |-> Len(names) + Len(helpers), init |-> 0]
    [] OTHER -> [struct |-> 0, method |-> 0, func |-> Len(helpers), init |-> 1]
=============================================================================
