------------------------------ MODULE MC_Calls ------------------------------
(* Role A for the F-Calls family: the fix-point protocol on every program of the bounded space.            *)
EXTENDS CallsValue
CONSTANTS WithValues
VARIABLES prog, g
vars == <<prog, g>>
Init == prog \in ProgsR /\ g = [k |-> "none"]
Next == g.k = "none" /\ g' = [k |-> "done", r |-> Gen(prog)] /\ UNCHANGED prog
Spec == Init /\ [][Next]_vars
Done == g.k = "done"
\* C13: the sweeps reach a fix point (fuel 12 is never exhausted)
A_Terminates == Done => g.r.converged
A_SweepBound == Done => g.r.sweeps <= 6
\* C03 / C06 / C07: generation fails exactly when an error would be dropped or a context is unavailable
A_FailsIffMust == Done => ((g.r.st.fail # "") <=> ~GenOK(prog))
\* C01: what is appended is well formed (only demanded of the repaired protocol; the pinned one has DevCreatorChainOnly)
A_WellFormed == (Done /\ Fixed /\ g.r.st.fail = "") => WellFormed(g.r.st)
A_ErrorNeverDropped == (Done /\ g.r.st.fail = "" /\ WellFormed(g.r.st)) => ErrorDropped(g.r.st) = {}
A_NoDirtyAtAppend == (Done /\ g.r.st.fail = "") => ~AnyDirty(g.r.st)
\* C06 / C07 at design level: the bodies compute the declarative mapping under every fault plan
A_Values == (Done /\ WithValues /\ Outcome(g.r) = "ok") =>
               \A v \in ValsN(prog, RootSrc, 1) : \A f \in {{}, {"a"}} : ValueOK(prog, v, f, Eval(prog, g.r.st.ms, g.r.st.ms[1].body, v, f, <<<<>>>>))
=============================================================================
