----------------------------- MODULE MC_Comments -----------------------------
(* Role A for the comments family: structural properties of the transcription on the whole bounded space.  *)
EXTENDS CommentsUniverse
CONSTANT Deep
VARIABLES d, done
vars == <<d, done>>
AllGroups == Groups1(ConvMarkers \cup VarMarkers \cup NonMarkers) \cup (IF Deep THEN Groups2(ConvMarkers) ELSE {})
Init == /\ d \in [kind : Kinds, attach : Attachments, group : AllGroups, mgroup : {<<>>, <<"// goverter:map A B">>}, mattach : {"doc", "trailing", "detached"}]
        /\ done = FALSE
Next == ~done /\ done' = TRUE /\ UNCHANGED d
Spec == Init /\ [][Next]_vars
A_MethodTrailingIgnored == d.mattach # "doc" => ExpectMethodLines(d) = <<>>
\* only attached doc comments can mark a declaration
A_DetachedIgnored == d.attach # "doc" => Expect(d) = "none"
\* every setting line is the remainder of a trimmed line that starts with goverter:, in source order
A_LinesAreDirectives == \A i \in DOMAIN ExpectLines(d) : \E j \in DOMAIN Flat(d.group) : Trim(Flat(d.group)[j]) = Prefix \o ExpectLines(d)[i]
A_Order == LET ls == ExpectLines(d) fl == Flat(d.group) IN
           \A i, j \in DOMAIN ls : i < j => \E a, b \in DOMAIN fl : a < b /\ Trim(fl[a]) = Prefix \o ls[i] /\ Trim(fl[b]) = Prefix \o ls[j]
\* a marked declaration has its marker among its lines unless the marker is only contained in prose / decorated block text
A_MarkerIsLine == (Expect(d) = "converter" /\ \E i \in DOMAIN d.group : d.group[i] \in {"// goverter:converter", "//goverter:converter", "/* goverter:converter */"})
                     => \E i \in DOMAIN ExpectLines(d) : ExpectLines(d)[i] = "converter"
=============================================================================
