------------------------------- MODULE MC_Enum -------------------------------
EXTENDS EnumSpec
CONSTANT MaxLen
VARIABLES p, g
vars == <<p, g>>
Init == p \in Progs(MaxLen) /\ g = [k |-> "none"]
Next == g.k = "none" /\ g' = [k |-> "done", r |-> Gen(p)] /\ UNCHANGED p
Spec == Init /\ [][Next]_vars
Done == g.k = "done"
\* the ordered walk accepts exactly what the statement accepts
A_GenIffOK == Done => ((g.r.fail = "") <=> EnumGenOK(p))
\* and the emitted switch computes the stated mapping for members and non-members
A_RunAsStated == (Done /\ g.r.fail = "") => \A i \in DOMAIN Inputs : RunOp(p, g.r, Inputs[i]) = EnumRun(p, Inputs[i])
=============================================================================
