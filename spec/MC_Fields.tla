------------------------------ MODULE MC_Fields ------------------------------
EXTENDS Fields
VARIABLES p, done
vars == <<p, done>>
Init == p \in Progs /\ done = FALSE
Next == ~done /\ done' = TRUE /\ UNCHANGED p
Spec == Init /\ [][Next]_vars
\* the code-ordered candidate search realises the statement wherever the statement is determinate
A_Refines == Agree(p)
\* a setting is never silently dropped: an ignore / map / autoMap line changes the outcome class or the source, or fails
A_IgnoreWins == p.ignore /\ ~(p.am /\ p.inner = "none") => OpOutcome(p).k = "ignored"
A_MapWins == (p.map \in {"B", "P.V"} /\ ~p.ignore /\ ~(p.am /\ p.inner = "none")) => (OpOutcome(p).k = "path" /\ OpOutcome(p).p = p.map)
=============================================================================
