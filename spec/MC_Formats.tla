---------------------------- MODULE MC_Formats ----------------------------
EXTENDS Formats
VARIABLES p, done
vars == <<p, done>>
Init == p \in Progs /\ done = FALSE
Next == ~done /\ done' = TRUE /\ UNCHANGED p
Spec == Init /\ [][Next]_vars
\* the emitter's fold yields exactly the declarations the formats are documented to consist of
A_DeclsAsDocumented == Emit(p) = Decls(p)
A_OneContainer == (p.fmt = "struct" => Decls(p).struct = 1) /\ (p.fmt # "struct" => Decls(p).struct = 0 /\ Decls(p).method = 0)
=============================================================================
