----------------------------- MODULE MC_Namer -----------------------------
EXTENDS Namer
CONSTANT MaxLen
VARIABLES used, given, n
vars == <<used, given, n>>
Init == used = Init0 /\ given = {} /\ n = 0
Step(o) == LET r == Apply(used, o) IN
           /\ n < MaxLen /\ n' = n + 1 /\ used' = r.used
           /\ given' = IF o.op = "register" THEN given ELSE given \cup {r.out[i] : i \in DOMAIN r.out}
Next == \E o \in Ops : Step(o)
Spec == Init /\ [][Next]_vars
\* C01: a name that is handed out was not in use before (action property), so no two declarations share a name
A_FreshNames == [][\A o \in Ops : (Step(o) /\ o.op # "register") => \A i \in DOMAIN Apply(used, o).out : Apply(used, o).out[i] \notin used]_vars
A_GivenAreUsed == given \subseteq used
=============================================================================
