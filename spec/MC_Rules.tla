------------------------------ MODULE MC_Rules ------------------------------
(* Role A for the F-Rules family: for every (source, target, settings) of the bounded universe the
   operational model (rule chain -> IR -> Eval) is checked against the declarative layer.          *)
EXTENDS RulesUniverse
CONSTANTS Leaves, Depth, Width, Mode

VARIABLES s, t, cfg, phase, ir
vars == <<s, t, cfg, phase, ir>>
Init == /\ \E p \in PairsOf(Mode, Leaves, Depth) : s = p[1] /\ t = p[2]
        /\ cfg \in Cfgs
        /\ phase = "start" /\ ir = Fail
Generate == /\ phase = "start"
            /\ ir' = PlanTop(cfg, s, t)
            /\ phase' = "done"
            /\ UNCHANGED <<s, t, cfg>>
Next == Generate
Spec == Init /\ [][Next]_vars

Done == phase = "done"
\* C03 at design level: the ordered first-match chain with sub-methods accepts exactly the documented pairs
A_C03 == Done => (~IsFail(ir) <=> Conv(cfg, s, t))
\* C02 / C11 at design level; the only disagreement allowed is the known model-level defect
\* (array -> slice loop emitted without make(): the loop indexes a nil slice)
BadVal(v) == LET r == EvalTop(ir, v) IN IsPanic(r) \/ Strip(r) # SMap(cfg, s, t, v)
A_C02 == (Done /\ ~IsFail(ir)) => \A v \in Vals(s, Width) : BadVal(v) => HasFixedNoMake(ir)
\* without the defect pattern the model agrees everywhere
A_C02strict == (Done /\ ~IsFail(ir) /\ ~HasFixedNoMake(ir)) => \A v \in Vals(s, Width) : ~BadVal(v)
\* C04 at design level: result cells are fresh unless the position is shared under skipCopySameType
\* (known model-level deviation: the address of an uncopied source position, `&source[i]`, under skipCopySameType)
A_C04 == (Done /\ ~IsFail(ir)) => \A v \in Vals(s, Width) : LET r == EvalTop(ir, v) IN IsPanic(r) \/ ShareOK(cfg, s, t, r) \/ HasValptrShare(ir)
A_C04strict == (Done /\ ~IsFail(ir) /\ ~HasValptrShare(ir)) => \A v \in Vals(s, Width) : LET r == EvalTop(ir, v) IN IsPanic(r) \/ ShareOK(cfg, s, t, r)
=============================================================================
