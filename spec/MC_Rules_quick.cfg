SPECIFICATION Spec
CONSTANTS
  Leaves <- LeavesQuick
  Depth = 1
  Width = 1
INVARIANTS A_C03 A_C02 A_C02strict A_C04
CHECK_DEADLOCK FALSE
