----------------------------- MODULE MC_Settings -----------------------------
(* Role A for the settings family: the operational fold (parseCommon applied level by level onto copied records)
   against the declarative layer, on every scenario of the bounded space.                                      *)
EXTENDS SettingsUniverse
VARIABLES sc, res
vars == <<sc, res>>
Init == sc \in Scenarios /\ res = [k |-> "none"]
Next == res.k = "none" /\ res' = [k |-> "done", r |-> Resolve(sc.cli, sc.conv, sc.meth, sc.sib)] /\ UNCHANGED sc
Spec == Init /\ [][Next]_vars
Done == res.k = "done"
\* whatever the statement calls invalid is rejected by the fold
A_InvalidRejected == (Done /\ Expect(sc) = "error") => ~res.r.ok
\* and nothing else is (where acceptance does not depend on the program)
A_ValidAccepted == (Done /\ Expect(sc) = "ok") => res.r.ok
\* last writer wins: method > converter > CLI > default, for the method and, independently, for its sibling
A_Precedence == (Done /\ res.r.ok) => (res.r.meth = EffM(sc) /\ res.r.sib = EffS(sc))
\* the rejection is attributed to the level where the offending line was written
A_Location == (Done /\ ~res.r.ok /\ HasInvalid(sc)) =>
                 \E p \in AllLines(sc) : InvalidLine(p[1], p[2].key, p[2].val) /\ (p[1] = res.r.level \/ (p[1] = "meth" /\ res.r.level = "sib"))
\* no accepted configuration has both wrappers enabled
A_NoConflictAccepted == (Done /\ res.r.ok) => ~(res.r.meth.wrapErrors /\ res.r.meth.wrapErrorsUsing # "")
=============================================================================
