---------------------------- MODULE MC_Signature ----------------------------
EXTENDS Signature
CONSTANT MaxParams
VARIABLES sig, done
vars == <<sig, done>>
Init == sig \in Sigs(MaxParams) \cup ExtSigs /\ done = FALSE
Next == ~done /\ done' = TRUE /\ UNCHANGED sig
Spec == Init /\ [][Next]_vars
\* the first-match fold accepts exactly the signatures C14 calls valid, and picks the stated source
A_AcceptsIffValid == (sig.place \notin {"typename", "unexported"} /\ OpAccepts(Eff(sig))) <=> ValidX(sig)
A_SourceAsStated == Valid(Eff(sig)) => Classify(Eff(sig)).source = SourceIndex(Eff(sig))
\* roles are assigned to every parameter, in declared order
A_Total == Len(Classify(sig).roles) = Len(sig.params)
=============================================================================
