------------------------------- MODULE Namer -------------------------------
(* namer/namer.go: the allocator of identifiers inside one generated function (and of method names inside one converter).
   State: the set of names in use.  Operations (the exported API):
     Name(b)      the first unused of b, b2, b3, ...; it becomes used
     Index()      the first unused of i, j, ..., z, i2, j2, ..., z2, i3, ...
     Map()        the first pair (key, value), (key2, value2), ... whose members are *both* unused
     Register(n)  marks n used; reports whether it was free
   C01: no identifier is declared twice -- every name handed out differs from every name handed out or registered before.
   The operational definitions transcribe the loops; TLC checks the uniqueness property on every reachable state of the bounded
   machine, and every bounded call sequence is replayed on the real namer (conformance: same names, same set).               *)
EXTENDS Naturals, Sequences, FiniteSets, TLC

IndexVars == <<"i", "j", "k", "l", "m", "n", "o", "p", "q", "r", "s", "t", "u", "v", "w", "x", "y", "z">>
Suffix(i) == IF i > 1 THEN ToString(i) ELSE ""
RECURSIVE NameFrom(_,_,_)
NameFrom(used, b, i) == IF b \o Suffix(i) \notin used THEN b \o Suffix(i) ELSE NameFrom(used, b, i + 1)
NameOf(used, b) == NameFrom(used, b, 1)
RECURSIVE IndexFrom(_,_,_)
IndexFrom(used, i, k) == IF k > Len(IndexVars) THEN IndexFrom(used, i + 1, 1)
                         ELSE IF IndexVars[k] \o Suffix(i) \notin used THEN IndexVars[k] \o Suffix(i) ELSE IndexFrom(used, i, k + 1)
IndexOf(used) == IndexFrom(used, 1, 1)
RECURSIVE MapFrom(_,_)
MapFrom(used, i) == IF "key" \o Suffix(i) \notin used /\ "value" \o Suffix(i) \notin used THEN <<"key" \o Suffix(i), "value" \o Suffix(i)>> ELSE MapFrom(used, i + 1)
MapOf(used) == MapFrom(used, 0)            \* (the loop starts at 0; 0 and 1 both mean "no suffix")

\* one operation: [op, arg] -> [used', out] (out: the sequence of names handed out; for register "true"/"false")
Apply(used, o) ==
  CASE o.op = "name" -> LET n == NameOf(used, o.arg) IN [used |-> used \cup {n}, out |-> <<n>>]
    [] o.op = "index" -> LET n == IndexOf(used) IN [used |-> used \cup {n}, out |-> <<n>>]
    [] o.op = "map" -> LET p == MapOf(used) IN [used |-> used \cup {p[1], p[2]}, out |-> p]
    [] o.op = "register" -> [used |-> used \cup {o.arg}, out |-> <<IF o.arg \in used THEN "false" ELSE "true">>]
RECURSIVE RunOps(_,_,_)
RunOps(used, ops, i) == IF i > Len(ops) THEN <<>> ELSE LET r == Apply(used, ops[i]) IN <<r.out>> \o RunOps(r.used, ops, i + 1)
Init0 == {"c"}                               \* New(): the receiver name is taken
\* the bounded alphabet: bases that collide with numbered names, with index names and with the map names
Bases == {"x", "x2", "i", "key"}
RegNames == {"x2", "x3", "i2", "value", "key2"}
Ops == {[op |-> "name", arg |-> b] : b \in Bases} \cup {[op |-> "index", arg |-> ""], [op |-> "map", arg |-> ""]} \cup {[op |-> "register", arg |-> n] : n \in RegNames}
=============================================================================
