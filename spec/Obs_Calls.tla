------------------------------ MODULE Obs_Calls ------------------------------
(* Role B1 for the F-Calls family: C01 (compiles, declared API), C06 (custom function used at every depth, context
   passed unchanged), C07 (errors propagate; refusal to drop them), C13 (terminates).                     *)
EXTENDS CallsValue, Json, FP
CONSTANT ObsFile
Obs == ndJsonDeserialize(ObsFile)
ProgOf(r) == [shape |-> r.shape, rootErr |-> r.rootErr, extErr |-> r.extErr, rootCtx |-> r.rootCtx, extCtx |-> r.extCtx, extId |-> r.extId, wrap |-> r.wrap, declB |-> r.declB, under |-> r.under, declL |-> r.declL, declH |-> r.declH]
Rng0(q) == {q[i] : i \in DOMAIN q}
RECURSIVE FromJ(_)
FromJ(v) ==
  CASE v.k \in {"nil", "b"} -> v
    [] v.k = "p" -> [v EXCEPT !.e = FromJ(v.e)]
    [] v.k = "s" -> [v EXCEPT !.es = [i \in DOMAIN v.es |-> FromJ(v.es[i])]]
    [] v.k = "m" -> [v EXCEPT !.kv = {<<FromJ(e[1]), FromJ(e[2])>> : e \in Rng0(v.kv)}]
    [] v.k = "st" -> [v EXCEPT !.fs = [i \in DOMAIN v.fs |-> FromJ(v.fs[i])]]
ErrNeeded(p) == (UsesExt(p) /\ p.extErr /\ ~p.rootErr) \/ ~TailOK(p)
CtxNeeded(p) == UsesExt(p) /\ p.extCtx /\ ~p.rootCtx
GenFinger(r) ==
  LET p == ProgOf(r) IN
  IF r.gen = "panic" THEN {<<"C13", "generator-panic", r.why, r.id>>}
  ELSE IF r.gen = "hang" THEN {<<"C13", "generator-hang", "", r.id>>}
  ELSE (IF r.gen = "ok" /\ ErrNeeded(p) THEN {<<"C07", "error-dropping-program-accepted", "", r.id>>} ELSE {})
       \cup (IF r.gen = "ok" /\ (CtxNeeded(p) \/ DeclCtxNeeded(p)) /\ ~ErrNeeded(p) THEN {<<"C06", "unavailable-context-accepted", "", r.id>>} ELSE {})
       \cup (IF r.gen = "fail" /\ GenOK(p) THEN {<<"C03", "rejected-convertible", "calls", r.id>>} ELSE {})
       \* a position whose only conversion is the custom function / declared method on the underlying type: a rejection means it was not applied
       \cup (IF r.gen = "fail" /\ GenOK(p) /\ KindsA(p) \cap UnderKinds # {} THEN {<<"C06", "custom-method-not-applied", "underlying-type", r.id>>} ELSE {})
       \cup (IF r.gen = "ok" /\ ~r.compiles
             THEN {<<"C01", "does-not-compile", IF AliasShadowed(p, r.dir) THEN "import-alias-shadowed-by-" \o r.dir ELSE IF Outcome(Gen(p)) = "uncompilable" THEN "stale-call-after-signature-retrofit" ELSE "unexplained", r.id>>} ELSE {})
       \cup (IF r.gen = "ok" /\ r.compiles /\ ~r.apiOK THEN {<<"C01", "declared-api-not-implemented", "", r.id>>} ELSE {})
ExecFinger(r) ==
  LET p == ProgOf(r)
      faults == IF r.faults THEN {"a"} ELSE {}
      reached == Reached(p, RootSrc, RootTgt, FromJ(r["in"]), faults) IN
  IF r.panic THEN {<<"C02", "panic", "calls", r.id>>}
  ELSE IF reached = {}
       THEN (IF r.err # "" THEN {<<"C07", "spurious-error", "", r.id>>} ELSE {})
            \cup (IF r.err = "" /\ FromJ(r.out) # SMapN(p, RootSrc, RootTgt, FromJ(r["in"])) THEN {<<"C06", "custom-function-result-not-at-every-position", "", r.id>>} ELSE {})
       ELSE (IF r.err = "" THEN {<<"C07", "error-dropped", "", r.id>>}
             ELSE IF r.err \notin reached THEN {<<"C07", "wrong-error", "", r.id>>} ELSE {})
            \cup (IF r.err # "" /\ p.wrap # "none" /\ r.path # Reported(p, FaultPath(p, RootSrc, RootTgt, FromJ(r["in"]), faults, <<>>, FALSE))
                  THEN {<<"C07", "wrong-location-path", "", r.id>>} ELSE {})
Rng(q) == {q[i] : i \in DOMAIN q}
\* a wrap is emitted wherever a method calls something that can fail (the fallible extend function or a method returning error)
EmitsWrap(p) == LET st == Gen(p).st IN
                \E m \in DOMAIN st.ms : st.ms[m].body.k # "none" /\ (HasFallibleExt(st.ms[m].body) \/ \E c \in Calls(st.ms[m].body) : st.ms[c.callee].retErr)
\* in this family every fallible call sits below a field or an index of its method, so wrapErrors emits fmt.Errorf wherever a wrap is due
EmitsWrapPlain(p) == EmitsWrap(p)
Finger18(r) ==
  IF r.gen # "ok" THEN {}
  ELSE (IF Rng(r.imports) # {"user"} \cup (IF r.wrap = "using" /\ EmitsWrap(ProgOf(r)) THEN {"wrap-pkg"} ELSE {}) \cup (IF r.wrap = "plain" /\ EmitsWrapPlain(ProgOf(r)) THEN {"fmt"} ELSE {})      \* the wrapErrorsUsing package when a wrap is emitted
        THEN {<<"C18", "imports-differ-from-owners-of-used-types", "calls", r.id>>} ELSE {})
       \cup (IF \E i \in DOMAIN r.decls : r.decls[i] \notin {"struct", "method"} THEN {<<"C18", "extra-top-level-declaration", "calls", r.id>>} ELSE {})
Finger(r) == IF r.exec THEN ExecFinger(r) ELSE GenFinger(r) \cup Finger18(r)
VARIABLES l, bad
Init == l = 1 /\ bad = {}
Next == /\ l <= Len(Obs)
        /\ LET f == Finger(Obs[l]) IN bad' = bad \cup {<<x[1], x[2], x[3]>> : x \in f} /\ EmitFP(f)
        /\ l' = l + 1
Done == l = Len(Obs) + 1
Report == Done => EmitSummary(Len(Obs))
=============================================================================
