----------------------------- MODULE Obs_Comments -----------------------------
(* Role B1 for C19: what comments.ParseDocs (public API) extracted from each materialised layout.
   record: the layout [kind, attach, group, mgroup] + outcome ("error" | "ok"), found = sequence of
   [vars, lines, mlines] (one per converter / variables block extracted from the scenario's file).          *)
EXTENDS CommentsUniverse, Json, FP
CONSTANT ObsFile
Obs == ndJsonDeserialize(ObsFile)
D(r) == [kind |-> r.kind, attach |-> r.attach, group |-> r.group, mgroup |-> r.mgroup, mattach |-> r.mattach]
Cause(r) == r.kind \o "/" \o (IF IsVars(D(r)) THEN "variables-marker" ELSE "converter-marker")
Finger(r) ==
  LET d == D(r) e == Expect(d) IN
  IF r.outcome = "panic" THEN {<<"C13", "parsedocs-panic", "", r.id>>}
  ELSE IF e = "error" THEN (IF r.outcome # "error" THEN {<<"C19", "marker-on-wrong-declaration-accepted", Cause(r), r.id>>} ELSE {})
  ELSE IF r.outcome = "error" THEN {<<"C19", "layout-rejected", r.kind \o "/" \o r.attach, r.id>>}
  ELSE IF e = "none" THEN (IF Len(r.found) # 0 THEN {<<"C19", "unattached-comment-has-influence", r.kind \o "/" \o r.attach, r.id>>} ELSE {})
  ELSE IF Len(r.found) # 1 THEN {<<"C19", "marked-declaration-not-extracted", r.kind, r.id>>}
  ELSE LET f == r.found[1] IN
       (IF f.vars # (e = "variables") THEN {<<"C19", "wrong-declaration-class", r.kind, r.id>>} ELSE {})
       \cup (IF f.lines # ExpectLines(d) THEN {<<"C19", "setting-lines-differ", r.kind, r.id>>} ELSE {})
       \cup (IF f.mlines # ExpectMethodLines(d) THEN {<<"C19", "method-setting-lines-differ", r.kind, r.id>>} ELSE {})
VARIABLES l, bad
Init == l = 1 /\ bad = {}
Next == /\ l <= Len(Obs)
        /\ LET f == Finger(Obs[l]) IN bad' = bad \cup {<<x[1], x[2], x[3]>> : x \in f} /\ EmitFP(f)
        /\ l' = l + 1
Done == l = Len(Obs) + 1
Report == Done => EmitSummary(Len(Obs))
=============================================================================
