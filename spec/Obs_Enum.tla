------------------------------- MODULE Obs_Enum -------------------------------
(* Role B1 for C08.  Generation records: gen ("ok" | "fail" | "panic"); execution records: input x and the
   result class of the real generated method: [k |-> "val", v], [k |-> "err"], [k |-> "panic"].            *)
EXTENDS EnumSpec, Json, FP
CONSTANT ObsFile
Obs == ndJsonDeserialize(ObsFile)
P(r) == [kind |-> r.kind, tr |-> r.tr, tr2 |-> r.tr2, same |-> r.same, src |-> r.src, tgt |-> r.tgt, map |-> r.map, unknown |-> r.unknown, rootErr |-> r.rootErr, pos |-> r.pos, enumOn |-> r.enumOn]
Cause(p) == IF ~p.enumOn THEN "enum-off" ELSE LET g == Gen(p) IN IF g.fail = "" THEN "model-accepts" ELSE g.fail
\* C18: fmt is imported exactly when an @error / @panic action is emitted
Rng(q) == {q[i] : i \in DOMAIN q}
UsesFmt(p) == p.enumOn /\ (p.unknown \in {"@error", "@panic"} \/ (p.map # <<>> /\ Has(p.src, p.map[1]) /\ p.map[2] \in {"@error", "@panic"}))
\* (with enum off the source enum of a *field* is only read, never named: its package is not an owner of a used type)
ExpImports(p) == (IF p.same THEN {"src-enum"} ELSE {"tgt-enum"} \cup (IF p.pos # "field" \/ p.enumOn THEN {"src-enum"} ELSE {})) \cup (IF p.pos = "field" THEN {"user"} ELSE {}) \cup (IF UsesFmt(p) THEN {"fmt"} ELSE {})
Finger18(r) ==
  LET p == P(r) IN
  IF r.exec \/ r.gen # "ok" THEN {}
  ELSE (IF Rng(r.imports) # ExpImports(p) THEN {<<"C18", "imports-differ-from-needed", IF UsesFmt(p) THEN "fmt-needed" ELSE "fmt-not-needed", r.id>>} ELSE {})
       \cup (IF \E i \in DOMAIN r.decls : r.decls[i] \notin {"struct", "method"} THEN {<<"C18", "extra-top-level-declaration", "", r.id>>} ELSE {})
Finger1(r) ==
  LET p == P(r) IN
  IF ~r.exec /\ r.gen = "ok" /\ ~r.orderOK THEN {<<"C12", "output-depends-on-converter-order", "enum", r.id>>, <<"C08", "output-depends-on-converter-order", "", r.id>>}
  ELSE IF ~r.exec THEN
     (IF r.gen = "panic" THEN {<<"C13", "generator-panic", r.why, r.id>>}
      ELSE IF (r.gen = "ok") # EnumGenOK(p)
      THEN {<<"C08", IF EnumGenOK(p) THEN "valid-enum-mapping-rejected" ELSE "invalid-enum-mapping-accepted", Cause(p), r.id>>} ELSE {})
     \cup (IF r.gen = "ok" /\ ~r.compiles THEN {<<"C01", "does-not-compile", "enum", r.id>>} ELSE {})
  ELSE IF ~EnumGenOK(p) THEN {}              \* an accepted invalid program is reported by its generation record
  ELSE LET e == EnumRun(p, r.x) IN
       IF r.res.k # e.k THEN {<<"C08", "runtime-class-differs", e.k \o "-expected-" \o r.res.k \o "-observed", r.id>>}
       ELSE IF e.k = "val" /\ r.res.v # e.v THEN {<<"C08", "runtime-value-differs", "", r.id>>} ELSE {}
VARIABLES l, bad
Init == l = 1 /\ bad = {}
Next == /\ l <= Len(Obs)
        /\ LET f == Finger1(Obs[l]) \cup Finger18(Obs[l]) IN bad' = bad \cup {<<x[1], x[2], x[3]>> : x \in f} /\ EmitFP(f)
        /\ l' = l + 1
Done == l = Len(Obs) + 1
Report == Done => EmitSummary(Len(Obs))
=============================================================================
