---------------------------- MODULE Obs_Formats ----------------------------
(* Role B1 for the output formats: C01 (compiles, the declared API exists in the format's shape and computes the conversion),
   C18 (nothing but the format's declarations), C03/C07 (acceptance).                                                         *)
EXTENDS Formats, Json, FP
CONSTANT ObsFile
Obs == ndJsonDeserialize(ObsFile)
P(r) == [fmt |-> r.fmt, bk |-> r.bk, sibling |-> r.sibling, ext |-> r.ext, rootErr |-> r.rootErr, how |-> r.how]
Finger(r) ==
  LET p == P(r) IN
  IF r.gen = "panic" THEN {<<"C13", "generator-panic", r.why, r.id>>}
  ELSE (IF r.gen = "ok" /\ ~GenOK(p) THEN {<<IF p.ext = "err" THEN "C07" ELSE "C01", IF p.ext = "err" THEN "error-dropping-program-accepted" ELSE "converter-argument-without-converter-accepted", p.fmt, r.id>>} ELSE {})
       \cup (IF r.gen # "ok" /\ GenOK(p) THEN {<<"C03", "rejected-convertible", "formats-" \o p.fmt, r.id>>} ELSE {})
       \cup (IF r.gen = "ok" /\ ~r.compiles THEN {<<"C01", "does-not-compile", "format-" \o p.fmt, r.id>>} ELSE {})
       \cup (IF r.gen = "ok" /\ r.compiles /\ ~r.apiOK THEN {<<"C01", "declared-api-not-implemented", "format-" \o p.fmt, r.id>>} ELSE {})
       \cup (IF r.gen = "ok" /\ GenOK(p) /\ r.compiles /\ r.apiOK /\ r.ran /\ r.res # Result(p) THEN {<<"C01", "declared-api-computes-something-else", "format-" \o p.fmt, r.id>>} ELSE {})
       \cup (IF r.gen = "ok" /\ GenOK(p) /\ [struct |-> r.decls.struct, method |-> r.decls.method, func |-> r.decls.func, init |-> r.decls.init] # Decls(p)
             THEN {<<"C18", "extra-top-level-declaration", "format-" \o p.fmt, r.id>>} ELSE {})
       \cup (IF r.gen = "ok" /\ GenOK(p) /\ r.decls.other > 0 THEN {<<"C18", "extra-top-level-declaration", "format-" \o p.fmt \o "-var-or-type", r.id>>} ELSE {})
VARIABLES l, bad
Init == l = 1 /\ bad = {}
Next == /\ l <= Len(Obs)
        /\ LET f == Finger(Obs[l]) IN bad' = bad \cup {<<x[1], x[2], x[3]>> : x \in f} /\ EmitFP(f)
        /\ l' = l + 1
Done == l = Len(Obs) + 1
Report == Done => EmitSummary(Len(Obs))
=============================================================================
