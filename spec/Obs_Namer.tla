----------------------------- MODULE Obs_Namer -----------------------------
(* Role B1 for the namer: every recorded call sequence must have produced exactly the names the transcription produces, and no
   name twice.                                                                                                             *)
EXTENDS Namer, Json, FP
CONSTANT ObsFile
Obs == ndJsonDeserialize(ObsFile)
\* index18 = eighteen Index() calls
RECURSIVE Expand(_)
Expand(ops) == IF ops = <<>> THEN <<>> ELSE (IF Head(ops).op = "index18" THEN [i \in 1..18 |-> [op |-> "index", arg |-> ""]] ELSE <<[op |-> Head(ops).op, arg |-> Head(ops).arg]>>) \o Expand(Tail(ops))
RECURSIVE Flat2(_)
Flat2(outs) == IF outs = <<>> THEN <<>> ELSE Head(outs) \o Flat2(Tail(outs))
Finger(r) ==
  LET ops == Expand(r.ops) want == RunOps(Init0, ops, 1) IN
  IF r.panic THEN {<<"C13", "generator-panic", "namer", r.id>>}
  ELSE (IF r.outs # want THEN {<<"C01", "identifier-allocation-differs-from-specification", "namer", r.id>>} ELSE {})
       \cup (LET handed == Flat2([i \in DOMAIN ops |-> IF ops[i].op = "register" THEN <<>> ELSE r.outs[i]]) IN
             IF Cardinality({handed[i] : i \in DOMAIN handed}) # Len(handed) \/ \E i \in DOMAIN handed : handed[i] = "c"
             THEN {<<"C01", "identifier-declared-twice", "namer", r.id>>} ELSE {})
VARIABLES l, bad
Init == l = 1 /\ bad = {}
Next == /\ l <= Len(Obs)
        /\ LET f == Finger(Obs[l]) IN bad' = bad \cup {<<x[1], x[2], x[3]>> : x \in f} /\ EmitFP(f)
        /\ l' = l + 1
Done == l = Len(Obs) + 1
Report == Done => EmitSummary(Len(Obs))
=============================================================================
