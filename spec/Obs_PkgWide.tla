---------------------------- MODULE Obs_PkgWide ----------------------------
(* Role B1 for several converters in one output package: C01 -- the run succeeds, no package-level identifier is declared twice
   across the emitted files (decided here on the recorded names, not by the compiler), every declared entry point exists, the
   package compiles; C18 -- exactly one helper per converter.                                                                  *)
EXTENDS PkgWide, Json, FP
CONSTANT ObsFile
Obs == ndJsonDeserialize(ObsFile)
P(r) == [fmt |-> r.fmt, files |-> r.files, bk |-> r.bk, n |-> r.n]
Rng(s) == {s[i] : i \in DOMAIN s}
Cause(p) == p.fmt \o "-" \o (IF p.files = "two" THEN "separate-files" ELSE "one-file")
Finger(r) ==
  LET p == P(r) IN
  IF r.gen = "panic" THEN {<<"C13", "generator-panic", r.why, r.id>>}
  ELSE IF r.gen # "ok" THEN {<<"C03", "rejected-convertible", "pkgwide-" \o Cause(p), r.id>>}
  ELSE (IF ~Distinct(r.names) THEN {<<"C01", "declared-twice", Cause(p), r.id>>} ELSE {})
       \cup (IF Distinct(r.names) /\ ~r.compiles THEN {<<"C01", "does-not-compile", "pkgwide-" \o Cause(p), r.id>>} ELSE {})
       \cup (IF Len(r.names) # Len(PkgLevel(p, "dir")) THEN {<<"C18", "extra-top-level-declaration", "pkgwide-" \o Cause(p), r.id>>} ELSE {})
       \cup (IF \E k \in 1..p.n : (p.fmt = "struct" /\ ("C" \o ToString(k) \o "Impl") \notin Rng(r.names)) \/ (p.fmt = "function" /\ ("Conv" \o ToString(k)) \notin Rng(r.names))
             THEN {<<"C01", "declared-api-not-implemented", "pkgwide-" \o Cause(p), r.id>>} ELSE {})
VARIABLES l, bad
Init == l = 1 /\ bad = {}
Next == /\ l <= Len(Obs)
        /\ LET f == Finger(Obs[l]) IN bad' = bad \cup {<<x[1], x[2], x[3]>> : x \in f} /\ EmitFP(f)
        /\ l' = l + 1
Done == l = Len(Obs) + 1
Report == Done => EmitSummary(Len(Obs))
=============================================================================
