------------------------------ MODULE Obs_Rules ------------------------------
(* Role B1 for the F-Rules family: every observation record of the real generator / the real generated
   code is judged against the declarative predicates.  One TLC step per record; a record that violates
   a clause yields a fingerprint <<property, class, cause, record id>> which is printed ("FP" lines)
   and accumulated in `bad`.  Verdicts demand no more than the property statements:
     C03  gen = ok  <=>  Conv            (panics of the generator are C13's business, not C03's)
     C02  no panic, Strip(out) = SMap(in)
     C04  ShareOK(out), source unchanged
     C13  the generator neither panicked nor hung                                                   *)
EXTENDS RulesUniverse, Json, FP
CONSTANT ObsFile
Obs == ndJsonDeserialize(ObsFile)

\* cause classification for known findings: structural, derived from the operational model
\* the known defect explains a wrong outcome only on inputs for which the operational model (which contains the
\* deviation) predicts exactly the observed outcome: panic for panic, the same wrong value for a wrong value
CauseC02(r) == LET ir == PlanTop(r.cfg, r.s, r.t) IN
               IF IsFail(ir) \/ ~HasFixedNoMake(ir) THEN "unexplained"
               ELSE LET m == EvalTop(ir, FromJson(r["in"])) IN
                    IF IsPanic(m) = r.panic /\ (r.panic \/ Strip(m) = Strip(FromJson(r.out)))
                    THEN "array-to-slice-without-make" ELSE "unexplained"

\* the known defect explains a shared address only on inputs for which the model itself predicts the sharing
CauseC04(r, in) == LET ir == PlanTop(r.cfg, r.s, r.t) IN
                   IF ~IsFail(ir) /\ HasValptrShare(ir) /\ ~IsPanic(EvalTop(ir, in)) /\ ~ShareOK(r.cfg, r.s, r.t, EvalTop(ir, in))
                   THEN "address-of-uncopied-source-position" ELSE "unexplained"

\* C11: does the pair contain a pointer asymmetry (T -> *U or *T -> U) at some position?
RECURSIVE PtrAsym(_,_)
PtrAsym(s_, t_) ==
  IF IsPtr(s_) # IsPtr(t_) THEN TRUE
  ELSE IF IsPtr(s_) /\ IsPtr(t_) THEN PtrAsym(Elem(s_), Elem(t_))
  ELSE IF IsList(s_) /\ IsList(t_) THEN PtrAsym(Elem(s_), Elem(t_))
  ELSE IF IsMap(s_) /\ IsMap(t_) THEN PtrAsym(KeyT(s_), KeyT(t_)) \/ PtrAsym(Elem(s_), Elem(t_))
  ELSE IF IsStruct(s_) /\ IsStruct(t_) /\ Len(Fields(s_)) = 1 /\ Len(Fields(t_)) = 1 THEN PtrAsym(Fields(s_)[1].t, Fields(t_)[1].t)
  ELSE FALSE
AsC11(f, r) == {<<"C11", "pointer-mismatch-" \o x[2], x[3], x[4]>> : x \in {y \in f : y[1] \in {"C02", "C03"} /\ y[3] \in {"", "unexplained"} /\ PtrAsym(r.s, r.t)}}

\* C18: imports are exactly the owners of the types used; declarations are the converter struct and its methods only
RECURSIVE UsesUser(_), UsesUnsafe(_)
UsesUser(t_) ==
  CASE t_.k = "named" -> TRUE
    [] t_.k = "iface" -> t_.id \notin {"any", "error"}
    [] t_.k \in {"ptr", "slice", "array"} -> UsesUser(t_.e)
    [] t_.k = "map" -> UsesUser(t_.key) \/ UsesUser(t_.e)
    [] t_.k = "struct" -> \E i \in DOMAIN t_.fs : UsesUser(t_.fs[i].t)
    [] OTHER -> FALSE
UsesUnsafe(t_) ==
  CASE t_.k = "basic" -> t_.b = "unsafe.Pointer"
    [] t_.k = "named" -> UsesUnsafe(t_.u)
    [] t_.k \in {"ptr", "slice", "array"} -> UsesUnsafe(t_.e)
    [] t_.k = "map" -> UsesUnsafe(t_.key) \/ UsesUnsafe(t_.e)
    [] t_.k = "struct" -> \E i \in DOMAIN t_.fs : UsesUnsafe(t_.fs[i].t)
    [] OTHER -> FALSE
\* a named type's underlying type never appears in the output, only its name
RECURSIVE SigUnsafe(_)
SigUnsafe(t_) ==
  CASE t_.k = "basic" -> t_.b = "unsafe.Pointer"
    [] t_.k \in {"ptr", "slice", "array"} -> SigUnsafe(t_.e)
    [] t_.k = "map" -> SigUnsafe(t_.key) \/ SigUnsafe(t_.e)
    [] t_.k = "struct" -> \E i \in DOMAIN t_.fs : SigUnsafe(t_.fs[i].t)
    [] OTHER -> FALSE
ExpectedImports(r) == (IF UsesUser(r.s) \/ UsesUser(r.t) THEN {"user"} ELSE {}) \cup (IF SigUnsafe(r.s) \/ SigUnsafe(r.t) THEN {"unsafe"} ELSE {})
Finger18(r) ==
  IF r.gen # "ok" THEN {}
  ELSE (IF Rng(r.imports) # ExpectedImports(r) THEN {<<"C18", "imports-differ-from-owners-of-used-types", "", r.id>>} ELSE {})
       \cup (IF Rng(r.imports) \cap {"reflect"} # {} THEN {<<"C18", "imports-reflect", "", r.id>>} ELSE {})
       \cup (IF \E i \in DOMAIN r.decls : r.decls[i] \notin {"struct", "method"} THEN {<<"C18", "extra-top-level-declaration", "", r.id>>} ELSE {})
       \cup (IF Cardinality({i \in DOMAIN r.decls : r.decls[i] = "struct"}) # 1 THEN {<<"C18", "converter-struct-count", "", r.id>>} ELSE {})

\* an unnamed struct type with an unexported field, spelled in another package, is a different type
RECURSIVE UnexpUnnamed(_)
UnexpUnnamed(t_) ==
  CASE t_.k = "struct" -> \E i \in DOMAIN t_.fs : ~Exported(t_.fs[i].n) \/ UnexpUnnamed(t_.fs[i].t)
    [] t_.k \in {"ptr", "slice", "array"} -> UnexpUnnamed(t_.e)
    [] t_.k = "map" -> UnexpUnnamed(t_.key) \/ UnexpUnnamed(t_.e)
    [] OTHER -> FALSE

FingerGen(r) ==
  IF r.gen = "panic" THEN {<<"C13", "generator-panic", r.why, r.id>>}
  ELSE IF r.gen = "hang" THEN {<<"C13", "generator-hang", "", r.id>>}
  ELSE LET conv == Conv(r.cfg, r.s, r.t) IN
       (IF (r.gen = "ok") # conv
        THEN {<<"C03", IF conv THEN "rejected-convertible" ELSE "accepted-unconvertible", "", r.id>>}
        ELSE {})
       \cup (IF r.gen = "fail" /\ ~r.diag THEN {<<"C03", "failure-without-diagnostic", "", r.id>>} ELSE {})
       \cup (IF r.gen = "fail" /\ r.nfiles > 0 THEN {<<"C03", "failure-with-output", "", r.id>>} ELSE {})
       \cup (IF r.gen = "fail" /\ ~r.namesDecl THEN {<<"C13", "diagnostic-without-declaration", "", r.id>>} ELSE {})
       \cup (IF r.gen = "ok" /\ ~r.compiles THEN {<<"C01", "does-not-compile", "", r.id>>} ELSE {})
       \cup (IF r.gen = "ok" /\ r.compiles /\ ~r.apiOK
             THEN {<<"C01", "declared-api-not-implemented", IF UnexpUnnamed(r.s) \/ UnexpUnnamed(r.t) THEN "unnamed-struct-with-unexported-field-in-signature" ELSE "unexplained", r.id>>} ELSE {})

FingerExec(r) ==
  LET in == FromJson(r["in"])
      out == FromJson(r.out)
      after == FromJson(r.srcAfter)
      exp == SMap(r.cfg, r.s, r.t, in) IN
  (IF r.panic THEN {<<"C02", "panic", CauseC02(r), r.id>>}
   ELSE IF Strip(out) # exp THEN {<<"C02", "value", CauseC02(r), r.id>>} ELSE {})
  \cup (IF ~r.panic /\ ~ShareOK(r.cfg, r.s, r.t, out) THEN {<<"C04", "shares", CauseC04(r, in), r.id>>} ELSE {})
  \cup (IF ~r.panic /\ after # FromJson(r.pre) THEN {<<"C04", "source-changed", "", r.id>>} ELSE {})
  \cup (IF r.race THEN {<<"C04", "race", "", r.id>>} ELSE {})

\* the race pass: 4 goroutines x 25 calls of the method on one shared source value under the race detector
FingerRace(r) ==
  (IF r.race THEN {<<"C04", "race", "", r.id>>} ELSE {})
  \cup (IF ~r.unchanged THEN {<<"C04", "source-changed", "concurrent", r.id>>} ELSE {})

Finger0(r) == IF ~r.exec THEN FingerGen(r) \cup Finger18(r) ELSE IF "racepass" \in DOMAIN r THEN FingerRace(r) ELSE FingerExec(r)
Finger(r) == LET f == Finger0(r) IN f \cup AsC11(f, r)

VARIABLES l, bad
Init == l = 1 /\ bad = {}
Next == /\ l <= Len(Obs)
        /\ LET f == Finger(Obs[l]) IN
           /\ bad' = bad \cup {<<x[1], x[2], x[3]>> : x \in f}
           /\ EmitFP(f)
        /\ l' = l + 1
Done == l = Len(Obs) + 1
Report == Done => EmitSummary(Len(Obs))
=============================================================================
