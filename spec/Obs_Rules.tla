------------------------------ MODULE Obs_Rules ------------------------------
(* Role B1 for the F-Rules family: every observation record of the real generator / the real generated
   code is judged against the declarative predicates.  One TLC step per record; a record that violates
   a clause yields a fingerprint <<property, class, cause, record id>> which is printed ("FP" lines)
   and accumulated in `bad`.  Verdicts demand no more than the property statements:
     C03  gen = ok  <=>  Conv            (panics of the generator are C13's business, not C03's)
     C02  no panic, Strip(out) = SMap(in)
     C04  ShareOK(out), source unchanged
     C13  the generator neither panicked nor hung                                                   *)
EXTENDS RulesUniverse, Json, FP
CONSTANT ObsFile
Obs == ndJsonDeserialize(ObsFile)

\* cause classification for known findings: structural, derived from the operational model
\* the known defect explains a wrong outcome only on inputs for which the operational model (which contains the
\* deviation) predicts exactly the observed outcome: panic for panic, the same wrong value for a wrong value
CauseC02(r) == LET ir == PlanTop(r.cfg, r.s, r.t) IN
               IF IsFail(ir) \/ ~HasFixedNoMake(ir) THEN "unexplained"
               ELSE LET m == EvalTop(ir, FromJson(r["in"])) IN
                    IF IsPanic(m) = r.panic /\ (r.panic \/ Strip(m) = Strip(FromJson(r.out)))
                    THEN "array-to-slice-without-make" ELSE "unexplained"

\* the known defect explains a shared address only on inputs for which the model itself predicts the sharing
CauseC04(r, in) == LET ir == PlanTop(r.cfg, r.s, r.t) IN
                   IF ~IsFail(ir) /\ HasValptrShare(ir) /\ ~IsPanic(EvalTop(ir, in)) /\ ~ShareOK(r.cfg, r.s, r.t, EvalTop(ir, in))
                   THEN "address-of-uncopied-source-position" ELSE "unexplained"

FingerGen(r) ==
  IF r.gen = "panic" THEN {<<"C13", "generator-panic", r.why, r.id>>}
  ELSE IF r.gen = "hang" THEN {<<"C13", "generator-hang", "", r.id>>}
  ELSE LET conv == Conv(r.cfg, r.s, r.t) IN
       (IF (r.gen = "ok") # conv
        THEN {<<"C03", IF conv THEN "rejected-convertible" ELSE "accepted-unconvertible", "", r.id>>}
        ELSE {})
       \cup (IF r.gen = "fail" /\ ~r.diag THEN {<<"C03", "failure-without-diagnostic", "", r.id>>} ELSE {})
       \cup (IF r.gen = "fail" /\ r.nfiles > 0 THEN {<<"C03", "failure-with-output", "", r.id>>} ELSE {})
       \cup (IF r.gen = "fail" /\ ~r.namesDecl THEN {<<"C13", "diagnostic-without-declaration", "", r.id>>} ELSE {})
       \cup (IF r.gen = "ok" /\ ~r.compiles THEN {<<"C01", "does-not-compile", "", r.id>>} ELSE {})

FingerExec(r) ==
  LET in == FromJson(r["in"])
      out == FromJson(r.out)
      after == FromJson(r.srcAfter)
      exp == SMap(r.cfg, r.s, r.t, in) IN
  (IF r.panic THEN {<<"C02", "panic", CauseC02(r), r.id>>}
   ELSE IF Strip(out) # exp THEN {<<"C02", "value", CauseC02(r), r.id>>} ELSE {})
  \cup (IF ~r.panic /\ ~ShareOK(r.cfg, r.s, r.t, out) THEN {<<"C04", "shares", CauseC04(r, in), r.id>>} ELSE {})
  \cup (IF ~r.panic /\ after # FromJson(r.pre) THEN {<<"C04", "source-changed", "", r.id>>} ELSE {})
  \cup (IF r.race THEN {<<"C04", "race", "", r.id>>} ELSE {})

\* the race pass: 4 goroutines x 25 calls of the method on one shared source value under the race detector
FingerRace(r) ==
  (IF r.race THEN {<<"C04", "race", "", r.id>>} ELSE {})
  \cup (IF ~r.unchanged THEN {<<"C04", "source-changed", "concurrent", r.id>>} ELSE {})

Finger(r) == IF ~r.exec THEN FingerGen(r) ELSE IF "racepass" \in DOMAIN r THEN FingerRace(r) ELSE FingerExec(r)

VARIABLES l, bad
Init == l = 1 /\ bad = {}
Next == /\ l <= Len(Obs)
        /\ LET f == Finger(Obs[l]) IN
           /\ bad' = bad \cup {<<x[1], x[2], x[3]>> : x \in f}
           /\ EmitFP(f)
        /\ l' = l + 1
Done == l = Len(Obs) + 1
Report == Done => EmitSummary(Len(Obs))
=============================================================================
