------------------------------- MODULE Obs_Run -------------------------------
(* Role B1 for the F-Run family (C09, C15, C16, C17): observation records of real goverter CLI runs.
   kind "hist":  one record per history; the state before every step is recomputed with RunModel.Step, the
                 observation of every gen step is judged against the statements.  `memo` remembers, per visible
                 input (layout, tags, types version, faulty converter), the first observed outcome: any later run
                 with the same visible input must produce the same exit status, bytes and diagnostic (C09) whatever
                 the history, the pattern form, the cwd form or the previous output were.
   kind "place": one run; created files against Files.tla.
   kind "argv":  one run; exit status and streams against Cli.tla.                                          *)
EXTENDS RunModel, Files, Cli, Json, FP
CONSTANT ObsFile
Obs == ndJsonDeserialize(ObsFile)
Rng(q) == {q[i] : i \in DOMAIN q}

Constraint(tags) == IF tags \in {"custom", "multi"} THEN "!vtag" ELSE "!goverter"
OutPaths(layout) == {p[1] : p \in Outputs(layout)}
PkgOf(layout) == (CHOOSE p \in Outputs(layout) : TRUE)[2]
PriorState(st) == IF st.out.k = "absent" THEN "absent" ELSE IF st.out.broken THEN "broken" ELSE IF st.out.ver = st.ver THEN "current" ELSE "stale"

\* one gen step: pre-state p (model), observation o
GenFinger(r, i, p, o) ==
  LET faulty == p.bad # "none"
      changed == Rng(o.created) \cup Rng(o.modified) \cup Rng(o.deleted)
      outs == Rng(o.outputs) IN
  \* C17: failing run = exit 1 + diagnostic + nothing created, truncated or modified
  (IF faulty /\ o.exit # 1 THEN {<<"C17", "faulty-run-exit-status", p.bad, r.id>>} ELSE {})
  \cup (IF faulty /\ ~o.stderr THEN {<<"C17", "no-diagnostic-on-stderr", p.bad, r.id>>} ELSE {})
  \cup (IF o.exit # 0 /\ (changed # {} \/ o.newdirs # <<>>) THEN {<<"C17", "failing-run-changed-files", p.bad, r.id>>} ELSE {})
  \* C16 / C17: fault-free sources regenerate whatever the previous output looked like
  \cup (IF ~faulty /\ o.exit # 0
        THEN (IF PriorState(p) \in {"stale", "broken"} \/ p.guard
              THEN {<<"C16", "prior-output-blocks-regeneration", PriorState(p), r.id>>}
              ELSE {<<"C17", "fault-free-run-exit-status", "", r.id>>}) ELSE {})
  \* C17: success = every output written completely
  \cup (IF o.exit = 0 /\ \E f \in outs : ~f.exists THEN {<<"C17", "output-missing-after-success", "", r.id>>} ELSE {})
  \* C15: a successful run touches exactly the configured files
  \cup (IF o.exit = 0 /\ ~(changed \subseteq OutPaths(r.layout)) THEN {<<"C15", "wrote-other-file", "", r.id>>} ELSE {})
  \cup (IF o.exit = 0 /\ \E f \in outs : f.exists /\ f.pkg # PkgOf(r.layout) THEN {<<"C15", "package-clause", "", r.id>>} ELSE {})
  \cup (IF o.exit = 0 /\ \E f \in outs : f.exists /\ f.path \in Rng(o.created) /\ f.mode # "644" THEN {<<"C15", "file-mode", "", r.id>>} ELSE {})
  \* C16: header + constraint on every emitted file
  \cup (IF o.exit = 0 /\ \E f \in outs : f.exists /\ (~f.header \/ f.constraint # Constraint(r.tags)) THEN {<<"C16", "header-or-constraint", "", r.id>>} ELSE {})

MemoKey(r, p) == <<r.layout, r.tags, p.ver, p.bad>>
MemoVal(o) == [exit |-> o.exit, hashes |-> IF o.exit = 0 THEN {<<f.path, f.hash>> : f \in Rng(o.outputs)} ELSE {}, diag |-> IF o.exit = 0 THEN "" ELSE o.diag]

\* walk a history: returns [fp, memo]
RECURSIVE Walk(_,_,_,_,_)
Walk(r, i, st, memo, acc) ==
  IF i > Len(r.steps) THEN [fp |-> acc, memo |-> memo, st |-> st]
  ELSE LET step == Step(st, r.steps[i]) o == r.obs[i] IN
       IF r.steps[i].op # "gen" THEN Walk(r, i + 1, step.st, memo, acc)
       ELSE LET k == MemoKey(r, st)
                f1 == GenFinger(r, i, st, o)
                f2 == IF k \in DOMAIN memo /\ memo[k] # MemoVal(o)
                      THEN {<<"C09", IF memo[k].exit # o.exit THEN "exit-differs" ELSE IF o.exit = 0 THEN "bytes-differ" ELSE "diagnostic-differs",
                              (IF st.bad = "none" THEN "no-fault" ELSE st.bad) \o "/" \o r.layout, r.id>>} ELSE {}
                \* C16 / C17: a successful run over existing output must leave exactly the bytes of a clean generation
                f3 == IF k \in DOMAIN memo /\ o.exit = 0 /\ memo[k].exit = 0 /\ memo[k].hashes # MemoVal(o).hashes /\ PriorState(st) # "absent"
                      THEN {<<"C17", "output-not-written-completely", PriorState(st), r.id>>}
                           \cup (IF PriorState(st) \in {"stale", "broken"} THEN {<<"C16", "regeneration-differs-from-clean-generation", PriorState(st), r.id>>} ELSE {})
                      ELSE {}
                memo2 == memo
                \* the model's post state only advances on observed success (keeps later steps meaningful after a violation)
            IN Walk(r, i + 1, IF o.exit = 0 THEN [st EXCEPT !.out = Out(st.ver, FALSE)] ELSE st, memo2, acc \cup f1 \cup f2 \cup f3)

\* phase 1: the memo is built from *clean* generations only (no previous output) and from failing runs
RECURSIVE Collect(_,_,_,_)
Collect(r, i, st, memo) ==
  IF i > Len(r.steps) THEN memo
  ELSE LET step == Step(st, r.steps[i]) o == r.obs[i] IN
       IF r.steps[i].op # "gen" THEN Collect(r, i + 1, step.st, memo)
       ELSE LET k == MemoKey(r, st)
                m2 == IF k \notin DOMAIN memo /\ (o.exit # 0 \/ PriorState(st) = "absent") THEN memo @@ (k :> MemoVal(o)) ELSE memo
            IN Collect(r, i + 1, IF o.exit = 0 THEN [st EXCEPT !.out = Out(st.ver, FALSE)] ELSE st, m2)

HistFinger(r, memo) ==
  LET w == Walk(r, 1, Init0, memo, {}) IN
  [fp |-> w.fp \cup (IF Compiles(w.st) /\ ~w.st.guard /\ ~r.compiles THEN {<<"C16", "tree-does-not-compile-after-regeneration", "", r.id>>} ELSE {}),
   memo |-> w.memo]

\* ---------------------------------------------------------------- placement
Join(seq) == IF seq = <<>> THEN "" ELSE LET RECURSIVE J(_) J(i) == IF i > Len(seq) THEN "" ELSE seq[i] \o "/" \o J(i + 1) IN J(1)
ExpectedPlace(r) ==
  LET dir == OutDir(r.decl, r.ofile, r.cwd)
      pkg == PkgName(r.decl, "src", r.ofile, r.opkg, r.exist, r.cwd)
      main == <<Join(dir) \o OutFile(r.ofile), pkg>> IN
  CASE r.conv2 = "global-ofile" -> {<<"ga/out/x.go", "aconv">>, <<"gb/out/x.go", "bconv">>}     \* the package already at each location
    [] r.conv2 \in {"none", "same-file-same-pkg", "same-file-other-name"} -> {main}
    [] r.conv2 = "two-opkg-lines" -> {<<main[1], IF r.opkg = "absent" THEN "stale" ELSE pkg>>}
    [] r.conv2 = "vars-path-pkg" -> {main, <<Join(r.decl) \o "vsub/v.gen.go", "vsub">>}
    [] r.conv2 = "other-file-same-pkg" -> {main, <<Join(dir) \o "y.go", pkg>>}
    [] r.conv2 = "vars" -> {main, <<Join(r.decl) \o "v.gen.go", "src">>}
    [] r.conv2 = "vars-dotted" -> {main, <<Join(r.decl) \o VarOutFile("v.conv.go"), "src">>}      \* only the .go suffix is replaced
    [] OTHER -> {}
PlaceFinger(r) ==
  LET created == {<<f.path, f.pkg>> : f \in Rng(r.created)} IN
  IF r.conv2 = "same-file-other-pkg" \/ (r.conv2 = "same-file-other-name" /\ r.opkg = "path:nm")
  THEN (IF r.exit # 1 THEN {<<"C15", "different-packages-in-one-file-accepted", "", r.id>>} ELSE {})
       \cup (IF created # {} \/ r.modified # <<>> THEN {<<"C17", "failing-run-changed-files", "place", r.id>>} ELSE {})
  ELSE (IF r.exit # 0 THEN {<<"C15", "placement-run-failed", r.ofile \o "/" \o r.opkg \o "/" \o r.exist, r.id>>}
        ELSE (IF created # ExpectedPlace(r) THEN {<<"C15", "wrong-file-or-package", r.ofile \o "/" \o r.opkg \o "/" \o r.exist \o "/" \o r.conv2, r.id>>} ELSE {})
             \cup (IF r.modified # <<>> \/ r.deleted # <<>> THEN {<<"C15", "touched-other-file", "", r.id>>} ELSE {})
             \cup (IF \E f \in Rng(r.created) : f.mode # "644" THEN {<<"C15", "file-mode", "", r.id>>} ELSE {})
             \cup (IF \E d \in Rng(r.newdirs) : SubSeq(d, Len(d) - 3, Len(d)) # ":755" THEN {<<"C15", "dir-mode", "", r.id>>} ELSE {})
             \cup (IF \E f \in Rng(r.created) : ~f.header \/ f.constraint # "!goverter" THEN {<<"C16", "header-or-constraint", "place", r.id>>} ELSE {}))

\* ---------------------------------------------------------------- header under the two flags (C16)
\* the constraint line is the configured one; it is omitted only when configured empty; unconfigured it is !goverter whatever the tags
HdrExpect(r) == IF r.consflag = "absent" THEN "!goverter" ELSE IF r.consflag = "empty" THEN "" ELSE r.consflag
HdrFinger(r) ==
  IF r.exit # 0 THEN {<<"C16", "clean-tree-generation-failed", r.tagflag \o "/" \o r.consflag, r.id>>}
  ELSE IF ~r.out.exists \/ ~r.out.header THEN {<<"C16", "header-or-constraint", "hdr-missing", r.id>>}
  ELSE IF r.out.constraint # HdrExpect(r) THEN {<<"C16", "header-or-constraint", "tags=" \o r.tagflag \o " constraint=" \o r.consflag, r.id>>} ELSE {}

\* ---------------------------------------------------------------- argument vectors
ArgvFinger(r) ==
  LET p == Parse(r.argv) changed == r.created # <<>> \/ r.modified # <<>> \/ r.deleted # <<>> IN
  (IF r.panic THEN {<<"C13", "cli-panic", "", r.id>>} ELSE {})
  \cup (IF p.k \in {"help", "version"} /\ r.exit # 0 THEN {<<"C17", "help-exit-status", p.k, r.id>>} ELSE {})
  \cup (IF p.k = "help" /\ ~r.usageOnStdout THEN {<<"C17", "help-not-on-stdout", "", r.id>>} ELSE {})
  \cup (IF p.k = "usage" /\ r.exit # 1 THEN {<<"C17", "usage-error-exit-status", p.why, r.id>>} ELSE {})
  \cup (IF p.k = "usage" /\ ~r.errorOnStderr THEN {<<"C17", "usage-error-not-on-stderr", p.why, r.id>>} ELSE {})
  \cup (IF p.k # "generate" /\ changed THEN {<<"C17", "non-generating-command-changed-files", p.k, r.id>>} ELSE {})
  \cup (IF p.k = "generate" /\ r.exit # 0 /\ changed THEN {<<"C17", "failing-run-changed-files", "argv", r.id>>} ELSE {})
  \cup (IF p.k = "generate" /\ r.exit \notin {0, 1} THEN {<<"C17", "exit-status-not-0-or-1", "", r.id>>} ELSE {})

\* ---------------------------------------------------------------- programs (C13)
ProgFinger(r) ==
  (IF r.timeout THEN {<<"C13", "generator-hang", r.name, r.id>>} ELSE {})
  \cup (IF r.panic THEN {<<"C13", "generator-panic", r.why, r.id>>} ELSE {})
  \cup (IF ~r.timeout /\ ~r.panic /\ r.exit \notin {0, 1} THEN {<<"C13", "exit-status-not-0-or-1", "", r.id>>} ELSE {})
  \cup (IF r.exit = 1 /\ ~r.stderr THEN {<<"C13", "failure-without-diagnostic", "", r.id>>} ELSE {})
  \cup (IF r.exit = 0 /\ ~r.compiles THEN {<<"C01", "does-not-compile", "shapes", r.id>>} ELSE {})

VARIABLES l, bad, memo, phase
Init == l = 1 /\ bad = {} /\ memo = <<>> /\ phase = 1
Next == \/ /\ phase = 1 /\ l <= Len(Obs)
           /\ memo' = (IF Obs[l].kind = "hist" THEN Collect(Obs[l], 1, Init0, memo) ELSE memo)
           /\ l' = l + 1 /\ UNCHANGED <<bad, phase>>
        \/ /\ phase = 1 /\ l = Len(Obs) + 1 /\ phase' = 2 /\ l' = 1 /\ UNCHANGED <<bad, memo>>
        \/ /\ phase = 2 /\ l <= Len(Obs)
           /\ LET r == Obs[l] IN
              IF r.kind = "hist"
              THEN LET h == HistFinger(r, memo) IN
                   /\ bad' = bad \cup {<<x[1], x[2], x[3]>> : x \in h.fp} /\ EmitFP(h.fp)
              ELSE LET f == IF r.kind = "place" THEN PlaceFinger(r) ELSE IF r.kind = "prog" THEN ProgFinger(r) ELSE IF r.kind = "hdr" THEN HdrFinger(r) ELSE ArgvFinger(r) IN
                   /\ bad' = bad \cup {<<x[1], x[2], x[3]>> : x \in f} /\ EmitFP(f)
           /\ l' = l + 1 /\ UNCHANGED <<memo, phase>>
Done == phase = 2 /\ l = Len(Obs) + 1
Report == Done => EmitSummary(Len(Obs))
=============================================================================
