----------------------------- MODULE Obs_Settings -----------------------------
(* Role B1 for the settings family (C12; the no-panic clause of C13 for directive text).
   A record = the lines of one scenario (as [key, val] records) + what the real parser did:
     outcome ("ok" | "error" | "panic"), names (levels whose location string occurs in the diagnostic),
     effMeth / effSib (the Common record of the parsed methods, when parsing succeeded).                 *)
EXTENDS SettingsUniverse, Json, FP
CONSTANT ObsFile
Obs == ndJsonDeserialize(ObsFile)

ToSeq(x) == x      \* JSON arrays arrive as sequences
Scen(r) == [kind |-> r.kind, cli |-> r.cli, conv |-> r.conv, meth |-> r.meth, sib |-> r.sib]

\* the level(s) at which the statement wants the diagnostic to point
InvalidLevels(sc) == {p[1] : p \in {q \in AllLines(sc) : InvalidLine(q[1], q[2].key, q[2].val)}}
ConflictLevels(sc) == {p[1] : p \in {q \in AllLines(sc) : q[2].key \in {"wrapErrors", "wrapErrorsUsing"}}}

Finger(r) ==
  LET sc == Scen(r) e == Expect(sc) IN
  IF r.outcome = "panic" THEN {<<"C13", "parser-panic", r.why, r.id>>}
  ELSE
  (IF e = "error" /\ r.outcome = "ok" THEN {<<"C12", IF BothEnabled(sc) THEN "conflict-accepted" ELSE "invalid-accepted", "", r.id>>} ELSE {})
  \cup (IF e = "ok" /\ r.outcome = "error" THEN {<<"C12", "valid-rejected", "", r.id>>} ELSE {})
  \cup (IF r.outcome = "error" /\ HasInvalid(sc) /\ (InvalidLevels(sc) \cap {r.names[i] : i \in DOMAIN r.names}) = {}
        THEN {<<"C12", "location-not-named", "", r.id>>} ELSE {})
  \cup (IF r.outcome = "error" /\ ~HasInvalid(sc) /\ BothEnabled(sc) /\ (ConflictLevels(sc) \cap {r.names[i] : i \in DOMAIN r.names}) = {}
        THEN {<<"C12", "location-not-named", "conflict", r.id>>} ELSE {})
  \cup (IF r.outcome = "error" /\ r.names = <<>> THEN {<<"C13", "diagnostic-without-location", "", r.id>>} ELSE {})
  \cup (IF r.outcome = "ok" /\ ~HasInvalid(sc) /\ r.effMeth # EffM(sc) THEN {<<"C12", "precedence", "", r.id>>} ELSE {})
  \cup (IF r.outcome = "ok" /\ ~HasInvalid(sc) /\ r.effSib # EffS(sc) THEN {<<"C12", "sibling", "", r.id>>} ELSE {})

VARIABLES l, bad
Init == l = 1 /\ bad = {}
Next == /\ l <= Len(Obs)
        /\ LET f == Finger(Obs[l]) IN
           /\ bad' = bad \cup {<<x[1], x[2], x[3]>> : x \in f}
           /\ EmitFP(f)
        /\ l' = l + 1
Done == l = Len(Obs) + 1
Report == Done => EmitSummary(Len(Obs))
=============================================================================
