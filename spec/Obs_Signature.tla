---------------------------- MODULE Obs_Signature ----------------------------
(* Role B1 for C14: generation outcome, declared API implemented (parameters in declared order with declared types),
   and at run time the value of the stated source parameter arrives in the target.                         *)
EXTENDS Signature, Json, FP
CONSTANT ObsFile
Obs == ndJsonDeserialize(ObsFile)
Finger(r) ==
  LET s0 == [params |-> r.params, results |-> r.results, use |-> r.use, layout |-> r.layout, place |-> r.place]
      s == Eff(s0) IN
  IF r.gen = "panic" THEN {<<"C13", "generator-panic", r.why, r.id>>}
  ELSE (IF r.gen = "ok" /\ ~ValidX(s0) THEN {<<"C14", IF s0.place = "typename" THEN "non-function-accepted-as-custom-function" ELSE IF s0.place = "unexported" THEN "inaccessible-custom-function-accepted" ELSE "invalid-signature-accepted", "", r.id>>} ELSE {})
       \cup (IF r.gen # "ok" /\ ValidX(s0) THEN {<<"C14", "valid-signature-rejected", "", r.id>>} ELSE {})
       \* C19: the outcome is exactly what the model predicts when the doc line of the custom function is read the wrong way round
       \cup (IF r.use = "extend" /\ s0.place \notin {"typename", "unexported"} /\ HasCtxDecl(s0) /\ Valid(s) # Valid(Misread(s0)) /\ (r.gen = "ok") = Valid(Misread(s0))
             THEN {<<"C19", IF s0.layout \in NotSetting THEN "non-setting-text-applied" ELSE "doc-setting-line-not-applied", "custom-function-" \o s0.layout \o (IF s0.place = "local" THEN "" ELSE IF s0.place = "regex" THEN "-regex-selected" ELSE "-same-named-package"), r.id>>} ELSE {})
       \cup (IF r.gen = "ok" /\ ~r.compiles THEN {<<"C01", "does-not-compile", "signature", r.id>>} ELSE {})
       \cup (IF r.gen = "ok" /\ r.compiles /\ ~r.apiOK THEN {<<"C14", "parameters-not-in-declared-order", "", r.id>>} ELSE {})
       \cup (IF r.gen = "ok" /\ Valid(s) /\ r.compiles /\ r.apiOK /\ r.ran /\ r.got # r.want[SourceIndex(s)] THEN {<<"C14", "wrong-parameter-used-as-source", "", r.id>>} ELSE {})
VARIABLES l, bad
Init == l = 1 /\ bad = {}
Next == /\ l <= Len(Obs)
        /\ LET f == Finger(Obs[l]) IN bad' = bad \cup {<<x[1], x[2], x[3]>> : x \in f} /\ EmitFP(f)
        /\ l' = l + 1
Done == l = Len(Obs) + 1
Report == Done => EmitSummary(Len(Obs))
=============================================================================
