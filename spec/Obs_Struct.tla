------------------------------ MODULE Obs_Struct ------------------------------
(* Role B1 for the F-Struct family: C05 (field selection), C10 (update methods), the accessibility clause of C03. *)
EXTENDS Fields, Update, Default, Json, FP
CONSTANT ObsFile
Obs == ndJsonDeserialize(ObsFile)
Rng(q) == {q[i] : i \in DOMAIN q}

FieldFinger(r) ==
  LET p == r.prog d == Outcome(p) e == Expect(p) IN
  IF r.gen = "panic" THEN {<<"C13", "generator-panic", r.why, r.id>>}
  ELSE IF d.k = "open" THEN {}
  ELSE IF d.k = "fail" THEN (IF r.gen = "ok" THEN {<<"C05", "setting-or-mismatch-silently-accepted", OpOutcome(p).k, r.id>>} ELSE {})
  ELSE IF r.gen # "ok" THEN {<<"C05", "selectable-field-rejected", d.k, r.id>>}
  ELSE (IF ~r.compiles THEN {<<"C01", "does-not-compile", "field", r.id>>} ELSE {})
       \cup (IF r.compiles /\ r.full # e.full THEN {<<"C05", "wrong-source-selected", d.k, r.id>>} ELSE {})
       \cup (IF r.compiles /\ r.pnil # e.pnil THEN {<<"C05", "nil-intermediate-pointer", d.k, r.id>>} ELSE {})
XFinger(r) ==
  LET e == XExpect(r.prog) IN
  IF r.gen = "panic" THEN {<<"C13", "generator-panic", r.why, r.id>>}
  ELSE (IF e.gen = "fail" /\ r.gen = "ok" THEN {<<"C05", "setting-silently-dropped-or-ambiguity-accepted", r.prog.x, r.id>>} ELSE {})
       \cup (IF e.gen = "ok" /\ r.gen # "ok" THEN {<<"C05", "selectable-field-rejected", r.prog.x, r.id>>} ELSE {})
       \cup (IF e.gen = "ok" /\ r.gen = "ok" /\ ~r.compiles THEN {<<"C01", "does-not-compile", "fieldx", r.id>>} ELSE {})
       \cup (IF e.gen = "ok" /\ r.gen = "ok" /\ r.compiles /\ r.prog.x \in {"method", "method-ctx"} /\ r.full # e.val THEN {<<"C05", "wrong-source-selected", r.prog.x, r.id>>} ELSE {})
       \cup (IF r.prog.x = "method-ctx" /\ e.gen = "ok" /\ r.gen # "ok" THEN {<<"C14", "context-parameter-misclassified", "struct-method-" \o (IF r.prog.named THEN "named" ELSE "unnamed"), r.id>>} ELSE {})
       \cup (IF r.prog.x = "method-ctx" /\ e.gen = "fail" /\ r.gen = "ok" THEN {<<"C14", "context-demand-dropped", "struct-method", r.id>>} ELSE {})
       \cup (IF r.prog.x = "misc" /\ r.gen = "ok" /\ r.compiles /\ r.panic THEN {<<"C02", "panic", "field-path-" \o r.prog.sub, r.id>>} ELSE {})
       \cup (IF r.prog.x = "misc" /\ r.gen = "ok" /\ r.compiles /\ ~r.panic /\ r.vals # e.vals THEN {<<"C05", "wrong-source-selected", "misc-" \o r.prog.sub, r.id>>} ELSE {})
AccFinger(r) ==
  LET e == AccExpect([side |-> r.side, setting |-> r.setting]) IN
  IF r.gen = "panic" THEN {<<"C13", "generator-panic", r.why, r.id>>}
  ELSE (IF e = "fail" /\ r.gen = "ok" THEN {<<"C03", "inaccessible-field-accepted", r.side \o "/" \o r.setting, r.id>>} ELSE {})
       \cup (IF e = "ok" /\ r.gen # "ok" THEN {<<"C03", "rejected-convertible", r.side \o "/" \o r.setting, r.id>>} ELSE {})
       \cup (IF r.gen = "ok" /\ ~r.compiles THEN {<<"C01", "does-not-compile", "acc/" \o r.side \o "/" \o r.setting, r.id>>} ELSE {})
       \cup (IF r.side = "same-package" /\ r.gen = "ok" /\ r.compiles /\ r.res.secret # AccSecret([side |-> r.side, setting |-> r.setting])
             THEN {<<"C05", IF r.setting = "none" THEN "same-named-field-not-copied" ELSE "ignored-field-assigned", "same-package/" \o r.setting, r.id>>} ELSE {})
       \cup (IF r.side = "same-package" /\ r.gen = "ok" /\ r.compiles /\ r.res.open # 5 THEN {<<"C05", "same-named-field-not-copied", "same-package/Open", r.id>>} ELSE {})
UpdFinger(r) ==
  LET p == r.prog IN
  IF r.gen = "panic" THEN {<<"C13", "generator-panic", r.why, r.id>>}
  ELSE IF r.gen # "ok" THEN {<<"C10", "update-method-rejected", "", r.id>>}
  ELSE IF ~r.compiles THEN {<<"C01", "does-not-compile", "update", r.id>>}
  ELSE IF r.panic THEN {<<"C10", "update-method-panics", "", r.id>>}
  ELSE IF r.srcNil THEN (IF \E i \in (1..4) \cup {6, 7, 8} : r.post[i] # "keep" THEN {<<"C10", "nil-source-modified-target", "", r.id>>} ELSE {})
  ELSE UNION {LET m == Must(p, UFields[i], Rng(r.nonzero)) IN
              IF m # "open" /\ r.post[i] # m THEN {<<"C10", IF m = "keep" THEN "field-overwritten" ELSE "field-not-updated", UFields[i], r.id>>} ELSE {} : i \in 1..4}
       \cup UNION {LET m == Must(p, MFields[i], Rng(r.nonzero)) IN
              IF m # "open" /\ r.post[5 + i] # m THEN {<<"C10", IF m = "keep" THEN "field-overwritten" ELSE "field-not-updated", MFields[i], r.id>>} ELSE {} : i \in 1..3}
       \cup (LET m == MustLS(p, Rng(r.nonzero)) IN
             IF m # "open" /\ r.post[5] # m THEN {<<"C10", IF m = "keep" THEN "field-overwritten" ELSE "field-not-updated", "LS", r.id>>} ELSE {})

\* C10 at the category corners (Update.tla CatProgs): post = <<outcome of F, G, H>> for the all-zero and for the all-non-zero source
CatFinger(r) ==
  IF r.gen = "panic" THEN {<<"C13", "generator-panic", r.why, r.id>>}
  ELSE IF r.gen # "ok" THEN {<<"C10", "update-method-rejected", "category-corners", r.id>>}
  ELSE IF ~r.compiles THEN {<<"C01", "does-not-compile", "update-cat", r.id>>}
  ELSE IF r.panic THEN {<<"C10", "update-method-panics", "category-corners", r.id>>}
  ELSE UNION {LET mz == CatMust(r.prog, CatFields[i], FALSE) mf == CatMust(r.prog, CatFields[i], TRUE) IN
              (IF mz # "open" /\ r.postZero[i] # mz THEN {<<"C10", "field-overwritten", "corner-" \o CatFields[i], r.id>>} ELSE {})
              \cup (IF r.postFull[i] # mf THEN {<<"C10", "field-not-updated", "corner-" \o CatFields[i], r.id>>} ELSE {}) : i \in 1..3}
\* C11: a method with a default constructor that is rebuilt in a later sweep (seen rule) still starts from FUNC's result
RebuildFinger(r) ==
  IF r.gen = "panic" THEN {<<"C13", "generator-panic", r.why, r.id>>}
  ELSE IF r.gen # "ok" THEN {<<"C11", "default-constructor-program-rejected", "rebuild", r.id>>}
  ELSE IF ~r.compiles THEN {<<"C01", "does-not-compile", "default-rebuild", r.id>>}
  ELSE IF r.res.nil \/ r.res.A # 100 THEN {<<"C11", "nil-source-does-not-return-constructor-result", "rebuilt-method", r.id>>} ELSE {}
\* C11 / C02: `default FUNC` on a method whose top-level rule does not take the constructor (a list method): the nested T -> *U
\* elements are ordinary conversions -- non-nil pointers to the converted values, no panic
ListFinger(r) ==
  IF r.gen = "panic" THEN {<<"C13", "generator-panic", r.why, r.id>>}
  ELSE IF r.gen # "ok" THEN {}                                               \* the statement does not say that default is allowed on a list method
  ELSE IF ~r.compiles THEN {<<"C01", "does-not-compile", "default-list", r.id>>}
  ELSE IF r.panic THEN {<<"C11", "method-with-default-panics", "nested-pointer-target-below-list-method", r.id>>, <<"C02", "panic", "default-on-list-method", r.id>>}
  ELSE IF r.res.nil \/ r.res.A # 5 THEN {<<"C11", "value-to-pointer-not-converted", "nested-pointer-target-below-list-method", r.id>>} ELSE {}
\* C11: default:update where goverter also has a generated helper for the struct pair (recursive type: seen rule and rebuild; or a
\* helper made for a sibling list method): the source is applied on top of FUNC's result, FUNC's other values survive
UpdRecFinger(r) ==
  IF r.gen = "panic" THEN {<<"C13", "generator-panic", r.why, r.id>>}
  ELSE IF r.gen # "ok" THEN {<<"C11", "default-constructor-program-rejected", r.kind, r.id>>}
  ELSE IF ~r.compiles THEN {<<"C01", "does-not-compile", r.kind, r.id>>}
  ELSE IF r.panic THEN {<<"C11", "method-with-default-panics", r.kind, r.id>>}
  ELSE IF r.res.nil \/ r.res.A # 5 THEN {<<"C11", "mapped-field-not-converted", r.kind, r.id>>}
  ELSE IF r.res.B # 100 THEN {<<"C11", "default-update-replaces-constructor-result", "generated-helper-called", r.id>>} ELSE {}
\* C11: default FUNC on a map method: the method starts from FUNC's result, so a nil source map returns it (res.A = the value under
\* FUNC's key "origin", -1 if absent; res.B = the value converted from the source entry "k" of the second input)
MapFinger(r) ==
  IF r.gen = "panic" THEN {<<"C13", "generator-panic", r.why, r.id>>}
  ELSE IF r.gen # "ok" THEN {<<"C11", "default-constructor-program-rejected", "map", r.id>>}
  ELSE IF ~r.compiles THEN {<<"C01", "does-not-compile", "default-map", r.id>>}
  ELSE IF r.panic THEN {<<"C11", "method-with-default-panics", "map-method", r.id>>}
  ELSE (IF r.res.A # 1 THEN {<<"C11", "nil-source-does-not-return-constructor-result", "map-method", r.id>>} ELSE {})
       \cup (IF r.res.B # 5 THEN {<<"C11", "mapped-field-not-converted", "map-method", r.id>>} ELSE {})
\* C07 on update methods: Update(source UWS, target *UWT) error with a failing custom function below field V, under wrapErrors
\* ("error setting field V: boom") and wrapErrorsUsing (path <<"V">>)
UpdWrapFinger(r) ==
  IF r.gen = "panic" THEN {<<"C13", "generator-panic", r.why, r.id>>}
  ELSE IF r.gen # "ok" THEN {<<IF r.kind = "update-wrap" THEN "C10" ELSE "C03", IF r.kind = "update-wrap" THEN "update-method-rejected" ELSE "rejected-convertible", r.kind, r.id>>}
  ELSE IF ~r.compiles THEN {<<"C01", "does-not-compile", r.kind, r.id>>}
  ELSE IF r.err = "" THEN {<<"C07", "error-dropped", r.kind, r.id>>}
  ELSE IF r.path # <<"V">> THEN {<<"C07", "wrong-location-path", r.kind \o "-" \o r.prog.x, r.id>>} ELSE {}
\* C06: `map Next NextV | NextVal` and `map . Sum | Summarize` on Conv(source *MN) *MNO, MN{V int; Next *MN}: the function named on a field
\* receives exactly that field (7 = source.Next.V), the one named on `.` the whole source (5 + 7)
MapFuncFinger(r) ==
  IF r.gen = "panic" THEN {<<"C13", "generator-panic", r.why, r.id>>}
  ELSE IF r.gen # "ok" THEN {<<"C03", "rejected-convertible", "mapfunc-parent", r.id>>}
  ELSE IF ~r.compiles THEN {<<"C01", "does-not-compile", "mapfunc-parent", r.id>>}
  ELSE (IF r.res.A # 7 THEN {<<"C06", "map-func-applied-to-wrong-value", "field-source", r.id>>} ELSE {})
       \cup (IF r.res.B # 12 THEN {<<"C06", "map-func-applied-to-wrong-value", "whole-source", r.id>>} ELSE {})
       \* `map . Self` without a function into a field of the source's own pointer type: a copy, not the source pointer itself
       \cup (IF r.res.selfShared THEN {<<"C04", "result-shares-memory-with-source", "map-dot-into-pointer-field", r.id>>} ELSE {})
       \cup (IF r.res.selfV # 5 THEN {<<"C05", "wrong-source-selected", "map-dot-into-pointer-field", r.id>>} ELSE {})
\* (also two non-update corners: useUnderlyingTypeMethods with a fallible function as the whole method; ignoreMissing below a map value)
\* C01 on update methods at the corners of the zero-value guard: a struct field that cannot be compared with == (it holds a slice)
\* under :struct, and `map . X` with a pointer source.  Whatever goverter decides, a reported success must compile.
UpdOddFinger(r) ==
  IF r.gen = "panic" THEN {<<"C13", "generator-panic", r.why, r.id>>}
  ELSE IF r.prog.x = "pointer-source-fault" THEN       \* string -> int without a custom function below an update method with a pointer source: must be refused
       (IF r.gen = "ok" THEN {<<"C03", "accepted-inconvertible", "update-pointer-source", r.id>>, <<"C17", "failing-input-reported-as-success", "update-pointer-source", r.id>>} ELSE {})
  ELSE IF r.prog.x = "default-unexported" THEN       \* `default newDT`, an unexported function of the converter's package, with the output in another package: must be refused
       (IF r.gen = "ok" THEN {<<"C01", "inaccessible-identifier-accepted", "default-unexported-constructor", r.id>>} ELSE {})
  ELSE IF r.gen = "ok" /\ ~r.compiles THEN {<<"C01", "does-not-compile", "update-" \o r.prog.x, r.id>>} ELSE {}
\* C01 / C07: `default FUNC` (FUNC without error result) on Conv(source UWS) (UWT, error) whose field conversion fails: the output
\* compiles (the error branch returns a value of the declared result type) and the error arrives
DefFallibleFinger(r) ==
  IF r.gen = "panic" THEN {<<"C13", "generator-panic", r.why, r.id>>}
  ELSE IF r.gen # "ok" THEN {<<"C11", "default-constructor-program-rejected", "fallible-field", r.id>>}
  ELSE IF ~r.compiles THEN {<<"C01", "does-not-compile", "default-fallible", r.id>>}
  ELSE IF r.err = "" THEN {<<"C07", "error-dropped", "default-fallible", r.id>>} ELSE {}
\* C10: :struct with a comparable source struct UN{X} whose *target* struct UNT{X; History []int} is not comparable: the zero source
\* struct still leaves the target field alone (post = X of the target field, 9 before the call)
UpdTncFinger(r) ==
  IF r.gen = "panic" THEN {<<"C13", "generator-panic", r.why, r.id>>}
  ELSE IF r.gen # "ok" THEN {<<"C10", "update-method-rejected", "update-tnc", r.id>>}
  ELSE IF ~r.compiles THEN {<<"C01", "does-not-compile", "update-tnc", r.id>>}
  ELSE IF r.panic THEN {<<"C10", "update-method-panics", "update-tnc", r.id>>}
  ELSE IF r.post # 9 THEN {<<"C10", "field-overwritten", "N-target-struct-not-comparable", r.id>>} ELSE {}
\* C06 under `default`: a *declared* method Inner(DV) DVO with its own field setting (map V | Twice) exists for the struct pair of the
\* method with the constructor: the declared method is what converts the pair (V arrives doubled), whatever the constructor does
DeclInnerFinger(r) ==
  IF r.gen = "panic" THEN {<<"C13", "generator-panic", r.why, r.id>>}
  ELSE IF r.gen # "ok" THEN {<<"C11", "default-constructor-program-rejected", "declared-inner", r.id>>}
  ELSE IF ~r.compiles THEN {<<"C01", "does-not-compile", "default-declared-inner", r.id>>}
  ELSE IF r.panic THEN {<<"C11", "method-with-default-panics", "declared-inner", r.id>>}
  ELSE IF r.res.nil \/ r.res.A # 10 THEN {<<"C06", "declared-method-not-used", "under-default-" \o r.prog.x, r.id>>} ELSE {}
\* C11, default constructors: res = [nil, A, B] of the returned struct (nil: a nil pointer was returned)
DMatch(e, got) == e = -1 \/ e = got
DefFinger(r) ==
  LET p == r.prog e == IF r.srcNil THEN ExpectNil(p) ELSE IF r.zeroB THEN ExpectZeroB(p) ELSE ExpectVal(p) IN
  IF r.gen = "panic" THEN {<<"C13", "generator-panic", r.why, r.id>>}
  ELSE IF p.noflag THEN (IF r.gen = "ok" THEN {<<"C11", "pointer-to-value-generated-without-the-flag", "method-with-default", r.id>>} ELSE {})
  ELSE IF r.gen # "ok" THEN {<<"C11", "default-constructor-program-rejected", "", r.id>>}
  ELSE IF ~r.compiles THEN {<<"C01", "does-not-compile", "default", r.id>>}
  ELSE IF r.panic THEN {<<"C11", "method-with-default-panics", "", r.id>>}
  ELSE IF r.res.nil THEN {<<"C11", IF r.srcNil THEN "nil-source-does-not-return-constructor-result" ELSE "nil-result", "", r.id>>}
  ELSE (IF ~DMatch(e.A, r.res.A) THEN {<<"C11", IF r.srcNil THEN "nil-source-does-not-return-constructor-result" ELSE "mapped-field-not-converted", "", r.id>>} ELSE {})
       \cup (IF ~DMatch(e.B, r.res.B) THEN {<<"C11", IF r.srcNil THEN "nil-source-does-not-return-constructor-result" ELSE IF p.ignoreB THEN "ignored-field-lost-constructor-value" ELSE "mapped-field-not-converted", "", r.id>>} ELSE {})
\* C18 on the outputs of this family: no reflect / unsafe, nothing but the converter struct and its methods, imports only
\* the packages owning the types used (the user's package p and, for the accessibility programs, q)
Finger18(r) ==
  IF r.gen # "ok" \/ "imports" \notin DOMAIN r THEN {}
  ELSE (IF Rng(r.imports) \cap {"reflect", "unsafe"} # {} THEN {<<"C18", "imports-reflect-or-unsafe", r.kind, r.id>>} ELSE {})
       \cup (IF r.kind \in {"update-wrap", "mapfunc-wrap"} /\ (IF r.prog.x = "plain" THEN "fmt" ELSE "wrap-pkg") \notin Rng(r.imports)
             THEN {<<"C18", "imports-differ-from-needed", "wrap-package-missing-" \o r.kind, r.id>>} ELSE {})
       \cup (IF ~(Rng(r.imports) \subseteq {"user", "user-q"} \cup (IF r.kind \in {"update-wrap", "mapfunc-wrap"} THEN (IF r.prog.x = "plain" THEN {"fmt"} ELSE {"wrap-pkg"}) ELSE {})) THEN {<<"C18", "imports-differ-from-owners-of-used-types", r.kind, r.id>>} ELSE {})
       \cup (IF \E i \in DOMAIN r.decls : r.decls[i] \notin {"struct", "method"} THEN {<<"C18", "extra-top-level-declaration", r.kind, r.id>>} ELSE {})
Finger0(r) == IF r.kind = "genfile" THEN {}
              ELSE IF r.kind = "update-iface" THEN (IF r.gen = "ok" /\ r.compiles THEN {} ELSE {<<"C10", "update-method-rejected", "interface-member", r.id>>})
              ELSE IF r.kind = "field" THEN FieldFinger(r) ELSE IF r.kind = "acc" THEN AccFinger(r) ELSE IF r.kind = "fieldx" THEN XFinger(r) ELSE IF r.kind = "default-rebuild" THEN RebuildFinger(r) ELSE IF r.kind = "default-list" THEN ListFinger(r) ELSE IF r.kind = "default-map" THEN MapFinger(r) ELSE IF r.kind = "default-declared-inner" THEN DeclInnerFinger(r) ELSE IF r.kind = "default-fallible" THEN DefFallibleFinger(r) ELSE IF r.kind \in {"update-wrap", "mapfunc-wrap"} THEN UpdWrapFinger(r) ELSE IF r.kind = "update-odd" THEN UpdOddFinger(r) ELSE IF r.kind = "update-tnc" THEN UpdTncFinger(r) ELSE IF r.kind = "update-cat" THEN CatFinger(r) ELSE IF r.kind = "mapfunc-parent" THEN MapFuncFinger(r) ELSE IF r.kind \in {"default-update-rec", "default-update-shared"} THEN UpdRecFinger(r) ELSE IF r.kind = "default" THEN DefFinger(r) ELSE UpdFinger(r)
\* C02: no executed method of this family may panic (nil intermediate pointers, nil sources, zero fields are among the inputs)
PanicFinger(r) == IF "panic" \in DOMAIN r /\ r.panic = TRUE /\ r.gen = "ok" THEN {<<"C02", "panic", "struct-family-" \o r.kind, r.id>>} ELSE {}
VARIABLES l, bad
Init == l = 1 /\ bad = {}
Next == /\ l <= Len(Obs)
        /\ LET f == Finger0(Obs[l]) \cup Finger18(Obs[l]) \cup PanicFinger(Obs[l]) IN bad' = bad \cup {<<x[1], x[2], x[3]>> : x \in f} /\ EmitFP(f)
        /\ l' = l + 1
Done == l = Len(Obs) + 1
Report == Done => EmitSummary(Len(Obs))
=============================================================================
