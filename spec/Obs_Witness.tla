----------------------------- MODULE Obs_Witness -----------------------------
EXTENDS Witness, Json, FP
CONSTANT ObsFile
Obs == ndJsonDeserialize(ObsFile)
Rng(q) == {q[i] : i \in DOMAIN q}
HelperWraps(chain) == Len(chain) > 0 /\ chain[Len(chain)] = "V"
Finger(r) ==
  LET w == [kind |-> r.kind, pc |-> r.pc, p1 |-> r.p1, p2 |-> r.p2] IN
  IF r.gen = "panic" THEN {<<"C13", "generator-panic", r.why, r.id>>}
  ELSE IF w.kind = "skipcopy" THEN
       (IF r.gen # "ok" THEN {<<"C12", "valid-rejected", "skipcopy-witness", r.id>>}
        ELSE IF ~r.compiles THEN {<<"C01", "does-not-compile", "witness", r.id>>}
        ELSE (IF r.alias[1] # AliasI(w, w.p1) THEN {<<"C12", "precedence", "skipCopySameType-effect-M1", r.id>>} ELSE {})
             \cup (IF r.alias[3] # AliasI(w, w.p2) THEN {<<"C12", "sibling", "skipCopySameType-effect-M2", r.id>>} ELSE {})
             \cup (IF r.alias[2] # AliasC(w) \/ r.alias[4] # AliasC(w) THEN {<<"C12", "generated-method-not-using-converter-setting", "skipCopySameType-helper", r.id>>} ELSE {})
             \cup (IF (r.alias[1] /\ ~AliasI(w, w.p1)) \/ (r.alias[3] /\ ~AliasI(w, w.p2)) \/ ((r.alias[2] \/ r.alias[4]) /\ ~AliasC(w))
                   THEN {<<"C04", "result-shares-memory-with-source", "skipCopySameType-not-in-effect", r.id>>} ELSE {}))
  ELSE IF w.kind = "skipdecl" THEN
       (IF r.gen # "ok" THEN {<<"C12", "valid-rejected", "skipdecl-witness", r.id>>}
        ELSE IF ~r.compiles THEN {<<"C01", "does-not-compile", "witness", r.id>>}
        ELSE IF r.declB # 0 THEN {<<"C06", "declared-method-bypassed", "skipCopySameType-on-caller", r.id>>} ELSE {})
  ELSE IF w.kind = "enumoff" THEN
       (IF r.gen # "ok" THEN {<<"C12", "valid-rejected", "enumoff-witness", r.id>>}
        ELSE IF ~r.compiles THEN {<<"C01", "does-not-compile", "witness", r.id>>}
        ELSE (IF r.byname[1] # ByName(w, w.p1) THEN {<<"C12", "precedence", "enum-effect-M1", r.id>>} ELSE {})
             \cup (IF r.byname[2] # ByName(w, w.p2)
                   THEN {<<"C12", "sibling", IF DevHelperOfSibling(w) /\ r.byname[2] THEN "generated-helper-of-sibling-used-despite-enum-no" ELSE "enum-effect-M2", r.id>>} ELSE {}))
  ELSE IF w.kind = "zeroflag" THEN
       (IF r.gen # "ok" /\ ZeroOK(w) THEN {<<"C12", "valid-rejected", "zeroflag-witness", r.id>>}
        ELSE IF r.gen = "ok" /\ ~ZeroOK(w) THEN {<<"C12", IF ~EffZeroConv(w) THEN "generated-method-not-using-converter-setting" ELSE "precedence", "useZeroValueOnPointerInconsistency-not-in-effect", r.id>>,
                                               <<"C11", "pointer-to-value-generated-without-the-flag", "witness", r.id>>}
        ELSE IF r.gen = "ok" /\ ~r.compiles THEN {<<"C01", "does-not-compile", "witness", r.id>>} ELSE {})
  ELSE IF w.kind = "emptypath" THEN
       (IF r.gen # "ok" THEN {<<"C12", "valid-rejected", "emptypath-witness", r.id>>}
        ELSE IF ~r.compiles THEN {<<"C01", "does-not-compile", "witness", r.id>>}
        ELSE (IF "wrap-pkg" \notin Rng(r.imports) THEN {<<"C18", "imports-differ-from-needed", "wrap-package-missing", r.id>>} ELSE {})
             \cup (IF r.msg1 # "path:|boom" THEN {<<"C07", "wrong-location-path", "wrap-not-applied-for-empty-path", r.id>>} ELSE {}))
  ELSE IF w.kind \in {"ctxregex", "ctxregexfn"} THEN
       (IF r.gen # "ok" /\ RegexOK(w) THEN {<<"C12", "valid-rejected", "ctxregex-witness", r.id>>}
        ELSE IF r.gen = "ok" /\ ~RegexOK(w) THEN {<<"C12", "precedence", "ctxregex-not-in-effect", r.id>>}
        ELSE IF r.gen = "ok" /\ ~r.compiles THEN {<<"C01", "does-not-compile", "witness", r.id>>} ELSE {})
  ELSE IF r.gen # "ok" THEN {<<"C12", "valid-rejected", "wrapErrors-witness", r.id>>}
  ELSE IF ~r.compiles THEN {<<"C01", "does-not-compile", "witness", r.id>>}
  ELSE (IF r.chain1 # ExpectM1(w) THEN {<<"C12", IF w.kind = "helper" /\ HelperWraps(r.chain1) # EffConvW(w) THEN "generated-method-not-using-converter-setting" ELSE "precedence", "wrapErrors-effect-M1", r.id>>} ELSE {})
       \cup (IF r.chain2 # ExpectM2(w) THEN {<<"C12", "sibling", "wrapErrors-effect-M2", r.id>>} ELSE {})
       \cup (IF ("fmt" \in Rng(r.imports)) # NeedsFmt(w) THEN {<<"C18", "imports-differ-from-needed", IF NeedsFmt(w) THEN "fmt-needed" ELSE "fmt-not-needed", r.id>>} ELSE {})
VARIABLES l, bad
Init == l = 1 /\ bad = {}
Next == /\ l <= Len(Obs)
        /\ LET f == Finger(Obs[l]) IN bad' = bad \cup {<<x[1], x[2], x[3]>> : x \in f} /\ EmitFP(f)
        /\ l' = l + 1
Done == l = Len(Obs) + 1
Report == Done => EmitSummary(Len(Obs))
=============================================================================
