------------------------------ MODULE PkgWide ------------------------------
(* Several converters of one run that emit into the same output *package* (generator/filemanager.go: which converters share a
   namer; generator/generate.go appendGenerated: which names are package-level in which format).
   Program: n converters C1..Cn of one source package, each declared in its own source file, each converting
            A<k>{B <bk>} -> A2<k>{B <bk>2}; all need a generated helper for the same pair B -> B2.
     fmt    struct (helpers are methods of C<k>Impl), function (helpers are package-level functions), variables (likewise)
     files  "one": all converters emit into one output file; "two": every converter emits into its own file of the same directory
   The emitter hands out helper names from a namer; C01 ("no emitted identifier is declared twice") needs the scope of that
   namer to be at least the scope in which the names live: the output package for package-level helpers.
   Scope is the granularity the code uses: "dir" (one namer per output directory; the repaired code) or "file" (one per output
   file: the pinned commit).  Constant-level.                                                                                 *)
EXTENDS Naturals, Sequences, FiniteSets, TLC
Fmts == {"struct", "function", "variables"}
Progs == [fmt : Fmts, files : {"one", "two"}, bk : {"ptr", "slice"}, n : {2, 3}]
Suffix(i) == IF i > 1 THEN ToString(i) ELSE ""
\* the k-th request for base b in one namer scope
Nth(b, k) == b \o Suffix(k)
\* the scope (an index) whose namer converter k draws from
ScopeOf(p, k, scope) == IF scope = "dir" \/ p.files = "one" THEN 1 ELSE k
\* position of converter k among the converters of its scope (converters are generated in order)
PosIn(p, k, scope) == Cardinality({j \in 1..k : ScopeOf(p, j, scope) = ScopeOf(p, k, scope)})
HelperName(p, k, scope) == Nth("helper", PosIn(p, k, scope))
\* the package-level names one run declares (as a sequence: duplicates matter); struct helpers are methods and live in the type
PkgLevel(p, scope) ==
  LET H == [k \in 1..p.n |-> HelperName(p, k, scope)] IN
  CASE p.fmt = "struct" -> [k \in 1..p.n |-> "C" \o ToString(k) \o "Impl"]
    [] p.fmt = "function" -> [k \in 1..p.n |-> "Conv" \o ToString(k)] \o H
    [] OTHER -> H
Distinct(s) == Cardinality({s[i] : i \in DOMAIN s}) = Len(s)
\* the design property: with a namer per output directory no package-level name is declared twice, whatever the program
ASSUME \A p \in Progs : Distinct(PkgLevel(p, "dir"))
\* ... and a namer per file is not enough exactly for the package-level formats with separate files (the named deviation)
FileScopeBreaks(p) == p.fmt # "struct" /\ p.files = "two"
ASSUME \A p \in Progs : Distinct(PkgLevel(p, "file")) <=> ~FileScopeBreaks(p)
=============================================================================
