----------------------------- MODULE PropsValue -----------------------------
(* Declarative layer for C02, C03, C04, C11 (pointer clauses): stated by recursion on the *type pair*
   as the documentation states the rules; it does not mention rule order, sub-methods or emission
   positions.  Independent of Rules.tla on purpose.                                                 *)
EXTENDS Types

\* C03: Convertible(cfg, S, T) -- the documented guarded disjunction
RECURSIVE Conv(_,_,_)
Conv(cfg, s, t) ==
  \/ cfg.skip /\ s = t
  \/ IsBasic(s) /\ IsBasic(t) /\ Kind(s) = Kind(t)
  \/ IsPtr(s) /\ IsPtr(t) /\ Conv(cfg, Elem(s), Elem(t))
  \/ ~IsPtr(s) /\ IsPtr(t) /\ Conv(cfg, s, Elem(t))
  \/ cfg.zero /\ IsPtr(s) /\ ~IsPtr(t) /\ Conv(cfg, Elem(s), t)
  \/ IsList(s) /\ IsSlice(t) /\ Conv(cfg, Elem(s), Elem(t))
  \/ IsMap(s) /\ IsMap(t) /\ Conv(cfg, KeyT(s), KeyT(t)) /\ Conv(cfg, Elem(s), Elem(t))
  \/ IsStruct(s) /\ IsStruct(t) /\
       (Len(Fields(t)) = 0 \/
          (/\ Len(Fields(s)) = 1 /\ Fields(s)[1].n = Fields(t)[1].n
           /\ Exported(Fields(t)[1].n)                      \* written from the output package
           /\ Conv(cfg, Fields(s)[1].t, Fields(t)[1].t)))

\* C02 / C11: the structural mapping (addresses of the result are "-": compare with Strip)
RECURSIVE SMap(_,_,_,_)
SMap(cfg, s, t, v) ==
  IF cfg.skip /\ s = t THEN Strip(v)
  ELSE IF IsPtr(s) /\ IsPtr(t) THEN (IF v = Nil THEN Nil ELSE [k |-> "p", a |-> "-", e |-> SMap(cfg, Elem(s), Elem(t), v.e)])
  ELSE IF IsPtr(s) THEN (IF v = Nil THEN Zero(t) ELSE SMap(cfg, Elem(s), t, v.e))      \* C11: nil |-> zero value
  ELSE IF IsPtr(t) THEN [k |-> "p", a |-> "-", e |-> SMap(cfg, s, Elem(t), v)]         \* C11: T -> *U non-nil
  ELSE IF IsBasic(s) THEN v
  ELSE IF IsSlice(s) THEN (IF v = Nil THEN Nil ELSE [k |-> "s", a |-> "-", es |-> [i \in DOMAIN v.es |-> SMap(cfg, Elem(s), Elem(t), v.es[i])]])
  ELSE IF IsArray(s) THEN [k |-> "s", a |-> "-", es |-> [i \in DOMAIN v.es |-> SMap(cfg, Elem(s), Elem(t), v.es[i])]]
  ELSE IF IsMap(s) THEN (IF v = Nil THEN Nil ELSE [k |-> "m", a |-> "-", kv |-> {<<SMap(cfg, KeyT(s), KeyT(t), p[1]), SMap(cfg, Elem(s), Elem(t), p[2])>> : p \in v.kv}])
  ELSE [k |-> "st", fs |-> [i \in 1..Len(Fields(t)) |-> SMap(cfg, Fields(s)[i].t, Fields(t)[i].t, v.fs[i])]]

\* C04: input addresses may occur in the result only below a position whose types are identical under skipCopySameType
RECURSIVE ShareOK(_,_,_,_)
ShareOK(cfg, s, t, v) ==
  IF cfg.skip /\ s = t THEN TRUE
  ELSE IF IsPtr(s) /\ ~IsPtr(t) THEN ShareOK(cfg, Elem(s), t, v)
  ELSE CASE v.k \in {"nil", "b", "panic"} -> TRUE
    [] v.k = "o" -> ~IsInAddr(v.a)
    [] v.k = "p" -> ~IsInAddr(v.a) /\ (IF IsPtr(s) THEN ShareOK(cfg, Elem(s), Elem(t), v.e) ELSE ShareOK(cfg, s, Elem(t), v.e))
    [] v.k = "s" -> (~IsInAddr(v.a) \/ Len(v.es) = 0) /\ \A i \in DOMAIN v.es : ShareOK(cfg, Elem(s), Elem(t), v.es[i])
    [] v.k = "arr" -> \A i \in DOMAIN v.es : ShareOK(cfg, Elem(s), Elem(t), v.es[i])
    [] v.k = "m" -> ~IsInAddr(v.a) /\ \A p \in v.kv : ShareOK(cfg, KeyT(s), KeyT(t), p[1]) /\ ShareOK(cfg, Elem(s), Elem(t), p[2])
    [] v.k = "st" -> \A i \in DOMAIN v.fs : ShareOK(cfg, Fields(s)[i].t, Fields(t)[i].t, v.fs[i])
=============================================================================
