------------------------------- MODULE Rules -------------------------------
(* Operational model of the generator's rule chain (generator.BuildSteps, builder/*.go) for programs
   without custom functions: which rule fires for a (source, target) pair, which code pattern (IR) it
   emits, and what that pattern computes (Eval).  Structured after the code:

     FirstRule   = the loop over BuildSteps in buildNoLookup / assignNoLookup (first Matches wins)
     SubMethod   = shouldCreateSubMethod (without the `seen` rule, which cannot change an IR here)
     Plan        = Build / Assign descent; mode "build" | "assign" is the position the code is
                   emitted for (List is the only builder whose Build and Assign differ: make() for an
                   array source is only emitted by List.Build)
     Eval        = Go semantics of the emitted patterns over abstract values (Types.tla)             *)
EXTENDS Types

RuleNames == <<"UseUnderlyingTypeMethods", "SkipCopy", "Enum", "BasicTargetPointerRule", "Pointer",
               "SourcePointer", "TargetPointer", "Basic", "Struct", "List", "Map">>

\* cfg: [skip, zero]  (skipCopySameType, useZeroValueOnPointerInconsistency); no extend, enums excluded
Matches(r, cfg, s, t) ==
  CASE r = "UseUnderlyingTypeMethods" -> FALSE
    [] r = "SkipCopy" -> cfg.skip /\ s = t
    [] r = "Enum" -> FALSE
    [] r = "BasicTargetPointerRule" -> IsBasic(s) /\ IsPtr(t) /\ IsBasic(Elem(t))
    [] r = "Pointer" -> IsPtr(s) /\ IsPtr(t)
    [] r = "SourcePointer" -> cfg.zero /\ IsPtr(s) /\ ~IsPtr(t)
    [] r = "TargetPointer" -> ~IsPtr(s) /\ IsPtr(t)
    [] r = "Basic" -> IsBasic(s) /\ IsBasic(t) /\ Kind(s) = Kind(t)
    [] r = "Struct" -> IsStruct(s) /\ IsStruct(t)
    [] r = "List" -> IsList(s) /\ IsList(t) /\ ~IsArray(t)
    [] r = "Map" -> IsMap(s) /\ IsMap(t)

FirstRule(cfg, s, t) ==
  LET hits == {i \in DOMAIN RuleNames : Matches(RuleNames[i], cfg, s, t)} IN
  IF hits = {} THEN "none" ELSE RuleNames[CHOOSE i \in hits : \A j \in hits : i <= j]

\* shouldCreateSubMethod for a pair below the top level of the method with signature (ms, mt)
NonBasicNamed(t) == IsNamed(t) /\ ~IsBasic(t)
SubMethod(cfg, ms, mt, s, t) ==
  LET curPtrStruct == IsStruct(s) /\ IsStruct(t) /\ (ms = P(s) \/ mt = P(t)) IN
  /\ ~curPtrStruct
  /\ (NonBasicNamed(s) \/ NonBasicNamed(t) \/ (IsPtr(s) /\ ~IsNamed(s) /\ NonBasicNamed(Elem(s))))
  /\ ~(cfg.skip /\ s = t)

Fail == [k |-> "fail"]
IsFail(x) == x.k = "fail"
Wrap1(kind, x) == IF IsFail(x) THEN Fail ELSE [k |-> kind, x |-> x]

RECURSIVE Plan(_,_,_,_,_,_), Apply(_,_,_,_,_,_)
\* a position below the top level: Build/Assign = lookup (nothing to find here), sub-method decision, rule
Plan(cfg, ms, mt, s, t, mode) ==
  IF SubMethod(cfg, ms, mt, s, t)
  THEN Wrap1("call", Apply(cfg, s, t, s, t, "build"))     \* new method (s,t); its top level is a Build
  ELSE Apply(cfg, ms, mt, s, t, mode)
\* buildNoLookup / assignNoLookup
Apply(cfg, ms, mt, s, t, mode) ==
  LET r == FirstRule(cfg, s, t) IN
  CASE r = "SkipCopy" -> [k |-> "share"]
    [] r = "BasicTargetPointerRule" -> Wrap1("valptr", Plan(cfg, ms, mt, s, Elem(t), "build"))
    [] r = "Pointer" -> Wrap1("ptrptr", Plan(cfg, ms, mt, Elem(s), Elem(t), "build"))
    [] r = "SourcePointer" -> LET x == Plan(cfg, ms, mt, Elem(s), t, "build") IN
                              IF IsFail(x) THEN Fail ELSE [k |-> "ptrval", x |-> x, zt |-> t]
    [] r = "TargetPointer" -> Wrap1("valptr", Plan(cfg, ms, mt, s, Elem(t), "build"))
    [] r = "Basic" -> [k |-> "copy"]
    [] r = "Struct" ->
         LET sf == Fields(s) tf == Fields(t) IN
         IF Len(tf) = 0 THEN [k |-> "struct", fs |-> <<>>]
         ELSE IF ~Exported(tf[1].n) THEN Fail                          \* output lives in another package
         ELSE IF Len(sf) = 0 \/ sf[1].n # tf[1].n THEN Fail
         ELSE LET x == Plan(cfg, ms, mt, sf[1].t, tf[1].t, "assign") IN
              IF IsFail(x) THEN Fail ELSE [k |-> "struct", fs |-> <<x>>]
    [] r = "List" -> LET x == Plan(cfg, ms, mt, Elem(s), Elem(t), "assign") IN
                     IF IsFail(x) THEN Fail
                     ELSE IF IsArray(s) THEN [k |-> "fixed", make |-> (mode = "build"), x |-> x]
                     ELSE [k |-> "slice", x |-> x]
    [] r = "Map" -> LET kx == Plan(cfg, ms, mt, KeyT(s), KeyT(t), "build")
                        vx == Plan(cfg, ms, mt, Elem(s), Elem(t), "build") IN
                    IF IsFail(kx) \/ IsFail(vx) THEN Fail ELSE [k |-> "map", kx |-> kx, vx |-> vx]
    [] OTHER -> Fail

\* the declared method (s,t): its top level goes straight to the rule chain (no lookup, no sub-method)
PlanTop(cfg, s, t) == Apply(cfg, s, t, s, t, "build")

\* does the IR contain an array->slice loop emitted without make() (defect candidate D9)?
RECURSIVE HasFixedNoMake(_)
HasFixedNoMake(ir) ==
  CASE ir.k \in {"copy", "share", "fail"} -> FALSE
    [] ir.k = "fixed" -> ~ir.make \/ HasFixedNoMake(ir.x)
    [] ir.k = "struct" -> \E i \in DOMAIN ir.fs : HasFixedNoMake(ir.fs[i])
    [] ir.k = "map" -> HasFixedNoMake(ir.kx) \/ HasFixedNoMake(ir.vx)
    [] OTHER -> HasFixedNoMake(ir.x)

\* does the IR take the address of a position that was not copied (valptr directly over share: `&source[i]`,
\* `&(*source).F`)?  Under skipCopySameType, T -> *T for an unnamed non-basic T is emitted like this.
RECURSIVE HasValptrShare(_)
HasValptrShare(ir) ==
  CASE ir.k \in {"copy", "share", "fail"} -> FALSE
    [] ir.k = "valptr" -> ir.x.k = "share" \/ HasValptrShare(ir.x)
    [] ir.k = "struct" -> \E i \in DOMAIN ir.fs : HasValptrShare(ir.fs[i])
    [] ir.k = "map" -> HasValptrShare(ir.kx) \/ HasValptrShare(ir.vx)
    [] OTHER -> HasValptrShare(ir.x)

\* ---------------------------------------------------------------- Eval: what the emitted code computes
(* Eval(ir, v, loc): loc is the memory the current source expression lives in -- "copy" for a by-value
   parameter, a range variable or a temporary, otherwise the label of the cell it is part of (pointee of a
   dereferenced pointer, backing array of an indexed slice; struct fields and array elements inherit it).
   It matters in exactly one place: taking the address of an uncopied position.                             *)
AnyPanic(seq) == \E i \in DOMAIN seq : IsPanic(seq[i])
(* Writes(ir, v): does the code emitted in *assign* position for an element/field with pattern ir execute a
   write to its target for source value v?  Pointer, slice, map and *T->T patterns assign only inside their
   nil guard; a struct assigns field by field; everything built as an expression is always assigned.        *)
RECURSIVE Writes(_,_)
Writes(ir, v) ==
  CASE ir.k \in {"ptrptr", "slice", "map", "ptrval"} -> v # Nil
    [] ir.k = "struct" -> Len(ir.fs) > 0 /\ Writes(ir.fs[1], v.fs[1])
    [] ir.k = "fixed" -> ir.make \/ \E i \in DOMAIN v.es : Writes(ir.x, v.es[i])
    [] OTHER -> TRUE
RECURSIVE Eval(_,_,_)
Eval(ir, v, loc) ==
  CASE ir.k \in {"copy", "share"} -> v
    [] ir.k = "call" -> Eval(ir.x, v, "copy")
    [] ir.k = "valptr" -> LET x == Eval(ir.x, v, loc) IN
                          IF IsPanic(x) THEN Panic
                          ELSE [k |-> "p", a |-> IF ir.x.k = "share" /\ loc # "copy" THEN loc ELSE "o", e |-> x]
    [] ir.k = "ptrptr" -> IF v = Nil THEN Nil ELSE
                          LET x == Eval(ir.x, v.e, v.a) IN IF IsPanic(x) THEN Panic ELSE [k |-> "p", a |-> "o", e |-> x]
    [] ir.k = "ptrval" -> IF v = Nil THEN Zero(ir.zt) ELSE Eval(ir.x, v.e, v.a)
    [] ir.k = "struct" -> IF Len(ir.fs) = 0 THEN [k |-> "st", fs |-> <<>>]
                          ELSE LET x == Eval(ir.fs[1], v.fs[1], loc) IN
                               IF IsPanic(x) THEN Panic ELSE [k |-> "st", fs |-> <<x>>]
    [] ir.k = "slice" -> IF v = Nil THEN Nil ELSE
                          LET es == [i \in DOMAIN v.es |-> Eval(ir.x, v.es[i], v.a)] IN
                          IF AnyPanic(es) THEN Panic ELSE [k |-> "s", a |-> "o", es |-> es]
    [] ir.k = "fixed" -> IF ~ir.make                  \* no make(): the first executed write indexes a nil slice
                          THEN (IF \E i \in DOMAIN v.es : Writes(ir.x, v.es[i]) THEN Panic ELSE Nil)
                          ELSE LET es == [i \in DOMAIN v.es |-> Eval(ir.x, v.es[i], loc)] IN
                               IF AnyPanic(es) THEN Panic ELSE [k |-> "s", a |-> "o", es |-> es]
    [] ir.k = "map" -> IF v = Nil THEN Nil ELSE
                          LET kv == {<<Eval(ir.kx, p[1], "copy"), Eval(ir.vx, p[2], "copy")>> : p \in v.kv} IN
                          IF \E p \in kv : IsPanic(p[1]) \/ IsPanic(p[2]) THEN Panic
                          ELSE [k |-> "m", a |-> "o", kv |-> kv]
EvalTop(ir, v) == Eval(ir, v, "copy")
=============================================================================
