---------------------------- MODULE RulesUniverse ----------------------------
(* The bounded program universe of the F-Rules family: (source, target) type pairs built from a leaf
   set by the seven constructors, with the two settings that change convertibility of such pairs.   *)
EXTENDS Rules, PropsValue

NI   == Nm("NI", INT)
NI2  == Nm("NI2", INT)
NS   == Nm("NS", STR)
NSt  == Nm("NSt", St(<<Fld("F", INT)>>))
NSt2 == Nm("NSt2", St(<<Fld("F", INT)>>))
\* two different named struct types without fields (marker types)
NE   == Nm("NE", St(<<>>))
NE2  == Nm("NE2", St(<<>>))
NA   == Nm("NA", A(INT))
NP   == Nm("NP", P(INT))
NSl  == Nm("NSl", S(INT))
NM   == Nm("NM", M(STR, INT))
\* unnamed struct types with a struct tag / an embedded (tagged) field: the generator has to spell such a type out
\* (make([]struct{...})), and tags and embedding are part of type identity
TAGGED == St(<<[n |-> "F", t |-> INT, tag |-> "json:\"f\""]>>)
EMBTAG == St(<<[n |-> "NSt", t |-> NSt, tag |-> "json:\"meta\"", emb |-> TRUE]>>)
ANY  == If("any")
ERR  == If("error")
IFM  == If("I")

RECURSIVE Comparable(_)
Comparable(t) ==
  LET u == Under(t) IN
  CASE u.k \in {"basic", "ptr", "iface", "chan"} -> TRUE
    [] u.k \in {"slice", "map", "func"} -> FALSE
    [] u.k = "array" -> Comparable(u.e)
    [] u.k = "struct" -> \A i \in DOMAIN u.fs : Comparable(u.fs[i].t)

Grow(X) == X \cup {P(x) : x \in X} \cup {S(x) : x \in X} \cup {A(x) : x \in X}
             \cup {M(STR, x) : x \in X} \cup {M(x, INT) : x \in {y \in X : Comparable(y)}}
             \cup {St(<<Fld("F", x)>>) : x \in X} \cup {St(<<Fld("f", x)>>) : x \in X}
RECURSIVE GrowN(_,_)
GrowN(X, d) == IF d = 0 THEN X ELSE GrowN(Grow(X), d - 1)

\* paired growth: both sides grow together (plus the three pointer asymmetries and array->slice), which reaches
\* deep *convertible* pairs without enumerating the quadratically many unrelated ones
PGrow(X) == X \cup {<<P(p[1]), P(p[2])>> : p \in X} \cup {<<p[1], P(p[2])>> : p \in X} \cup {<<P(p[1]), p[2]>> : p \in X}
              \cup {<<S(p[1]), S(p[2])>> : p \in X} \cup {<<A(p[1]), S(p[2])>> : p \in X}
              \cup {<<M(STR, p[1]), M(STR, p[2])>> : p \in X}
              \cup {<<M(p[1], INT), M(p[2], INT)>> : p \in {q \in X : Comparable(q[1]) /\ Comparable(q[2])}}
              \cup {<<St(<<Fld("F", p[1])>>), St(<<Fld("F", p[2])>>)>> : p \in X}
RECURSIVE PGrowN(_,_)
PGrowN(X, d) == IF d = 0 THEN X ELSE PGrowN(PGrow(X), d - 1)
Permissive == [skip |-> TRUE, zero |-> TRUE]
BasePairs(L) == {p \in L \X L : Conv(Permissive, p[1], p[2])}
\* the (source, target) pairs of a universe: every pair of independently grown terms, or paired growth
PairsOf(mode, L, d) == IF mode = "paired" THEN PGrowN(BasePairs(L), d) ELSE GrowN(L, d) \X GrowN(L, d)

AllBasics == {B(k) : k \in BasicKinds}
LeavesQuick == {INT, STR, B("int64"), B("bool"), NI, NSt, NSt2, NA, ANY, Fn, St(<<>>)}
LeavesFull  == AllBasics \cup {NI, NI2, NS, NSt, NSt2, NA, NP, NSl, NM, ANY, ERR, IFM, Fn, Ch, St(<<>>)}
LeavesDeep  == {INT, STR, NI, NSt, NSt2, NA, ANY}
LeavesTiny  == {INT, STR, NI, NSt}
LeavesVal   == LeavesQuick \cup {NSl, NM, NP, NS, TAGGED, EMBTAG, B("byte"), NE, NE2}
LeavesPair  == {INT, NI, NSt, NSt2, NSl, S(INT), ANY}
LeavesMini  == {INT, NSt, NSt2}
LeavesPtr   == {INT, NSt, NSt2, P(INT), P(P(INT)), P(NSt), P(NSt2)}

\* the leaves goverter cannot convert by itself, and named non-struct types (C13)
LeavesOdd   == {INT, STR, NS, B("byte"), B("uintptr"), B("unsafe.Pointer"), ERR, ANY, IFM, Fn, Ch, NI, NSt, NP, NSl, NM, NA}
Cfgs == [skip : BOOLEAN, zero : BOOLEAN]
CfgsSkip == [skip : BOOLEAN, zero : {FALSE}]
=============================================================================
