---------------------------- MODULE RulesUniverse ----------------------------
(* The bounded program universe of the F-Rules family: (source, target) type pairs built from a leaf
   set by the seven constructors, with the two settings that change convertibility of such pairs.   *)
EXTENDS Rules, PropsValue

NI   == Nm("NI", INT)
NI2  == Nm("NI2", INT)
NS   == Nm("NS", STR)
NSt  == Nm("NSt", St(<<Fld("F", INT)>>))
NSt2 == Nm("NSt2", St(<<Fld("F", INT)>>))
NA   == Nm("NA", A(INT))
NP   == Nm("NP", P(INT))
NSl  == Nm("NSl", S(INT))
NM   == Nm("NM", M(STR, INT))
ANY  == If("any")
ERR  == If("error")
IFM  == If("I")

RECURSIVE Comparable(_)
Comparable(t) ==
  LET u == Under(t) IN
  CASE u.k \in {"basic", "ptr", "iface", "chan"} -> TRUE
    [] u.k \in {"slice", "map", "func"} -> FALSE
    [] u.k = "array" -> Comparable(u.e)
    [] u.k = "struct" -> \A i \in DOMAIN u.fs : Comparable(u.fs[i].t)

Grow(X) == X \cup {P(x) : x \in X} \cup {S(x) : x \in X} \cup {A(x) : x \in X}
             \cup {M(STR, x) : x \in X} \cup {M(x, INT) : x \in {y \in X : Comparable(y)}}
             \cup {St(<<Fld("F", x)>>) : x \in X} \cup {St(<<Fld("f", x)>>) : x \in X}
RECURSIVE GrowN(_,_)
GrowN(X, d) == IF d = 0 THEN X ELSE GrowN(Grow(X), d - 1)

AllBasics == {B(k) : k \in BasicKinds}
LeavesQuick == {INT, STR, B("int64"), B("bool"), NI, NSt, NSt2, NA, ANY, Fn, St(<<>>)}
LeavesFull  == AllBasics \cup {NI, NI2, NS, NSt, NSt2, NA, NP, NSl, NM, ANY, ERR, IFM, Fn, Ch, St(<<>>)}
LeavesDeep  == {INT, STR, NI, NSt, NSt2, NA, ANY}
LeavesTiny  == {INT, STR, NI, NSt}

\* the leaves goverter cannot convert by itself, and named non-struct types (C13)
LeavesOdd   == {INT, B("uintptr"), B("unsafe.Pointer"), ERR, ANY, IFM, Fn, Ch, NI, NSt, NP, NSl, NM, NA}
Cfgs == [skip : BOOLEAN, zero : BOOLEAN]
CfgsSkip == [skip : BOOLEAN, zero : {FALSE}]
=============================================================================
