--------------------------------- MODULE Run ---------------------------------
(* State machine over RunModel: TLC explores every history up to MaxLen and checks the run-level properties at
   design level (role A).  `runs` is a history variable (memo of completed gen steps) for the 2-safety property. *)
EXTENDS RunModel
CONSTANT MaxLen
VARIABLES st, hist, last, runs
vars == <<st, hist, last, runs>>

Init == st = Init0 /\ hist = <<>> /\ last = [exit |-> -1, pre |-> Init0] /\ runs = {}
Do(o) == /\ Len(hist) < MaxLen
         /\ LET r == Step(st, o) IN
            /\ st' = r.st /\ last' = [exit |-> r.exit, pre |-> st]
            /\ runs' = IF o.op = "gen" THEN runs \cup {[inp |-> Visible(st), exit |-> r.exit, out |-> r.st.out]} ELSE runs
         /\ hist' = Append(hist, o)
Next == \E o \in Ops : Do(o)
Spec == Init /\ [][Next]_vars

IsGen == hist # <<>> /\ hist[Len(hist)].op = "gen"
\* C17: a failing run changes no file; success leaves every output complete and current
A_FailureIsReadOnly == (IsGen /\ last.exit # 0) => st = last.pre
A_ExitReflectsOutcome == IsGen => ((last.exit = 1) <=> (last.pre.bad # "none"))
A_SuccessWritesAll == (IsGen /\ last.exit = 0) => (st.out.k = "present" /\ ~st.out.broken /\ st.out.ver = st.ver)
\* C16: whatever happened to earlier output or guarded files, a run over fault-free sources succeeds and the tree compiles
A_StaleNeverBlocks == (IsGen /\ last.pre.bad = "none") => (last.exit = 0 /\ Compiles(st))
\* C09: outcome and output are a function of the visible inputs only (history variable, 2-safety)
A_HistoryIndependent == \A a, b \in runs : a.inp = b.inp => (a.exit = b.exit /\ (a.exit = 0 => a.out = b.out))
\* C15: only gen steps touch generated files, and only when they succeed
A_OnlyGenWrites == [][(st'.out # st.out) => (hist'[Len(hist')].op \in {"gen", "break", "bloat", "scramble", "delete"})]_vars
=============================================================================
