------------------------------ MODULE RunModel ------------------------------
(* L4 operational model of goverter runs on a changing tree (cli/run.go, runner.go, comments/parse_docs.go,
   generator/generate.go).  One *history* is a sequence of steps on one module tree:

     gen      a goverter run (exit status, files written)          -- everything before the write loop happens in
                                                                      memory: a failing run writes nothing
     edit     the user changes the types (version 1 <-> 2): existing output becomes stale and does not compile
     break    previously generated files are replaced by (shorter) garbage below their two header lines;
              bloat appends garbage (the file gets longer), scramble overwrites the body in place (same size)
     delete   previously generated files are removed
     guard    a user file guarded by the output constraint that references generated code is added / removed
     bad(k)   a package with a faulty converter (directive / signature / conversion fault) is added / removed

   Output files carry `//go:build <constraint>`; goverter loads packages under the complementary tag, so neither
   the previous output nor guarded user files are visible to it (Visible).  Constant-level module.            *)
EXTENDS Integers, Sequences, FiniteSets, TLC

\* tie: two function-format converters of different packages with the same name share one output file
\* twofiles: two converters of one package, each with its own output file in that package
Layouts == {"separate", "same", "shared", "tie", "twofiles"}
\* multi: several build tags, the complementary one not last (-build-tags vtag,other -output-constraint !vtag)
\* envtag: -build-tags "" with the tag supplied through GOFLAGS; the output constraint !goverter is still configured
TagCfgs == {"default", "custom", "multi", "envtag"}
\* unknown2 / enumkeys2: two simultaneous faults of the same kind in one method (which one is reported must not vary)
\* marker: a valid converter followed by a marker on a struct (fails while extracting converters)
\* format: a converter whose output cannot be formatted (name "Bad-Impl"), in an output file of its own
\* ctxmissing3: an extend function with three context parameters none of which is available
\* twopkgs: two packages, each with a faulty converter (a directive fault in one, a signature fault in the other): which one is
\* reported must not depend on the order of the package patterns; twomarkers: the same with a misplaced marker in each package;
\* directive4: four variables of one goverter:variables block, each with an unknown setting (the variables are kept in a map);
\* twobroken: two packages that do not compile; extendmissing: `goverter:extend NoSuch E` (the first name does not exist, the second does);
\* conversion2: two methods of one converter, each with an unconvertible pair (the methods are built from a map)
Faults == {"directive", "signature", "conversion", "unknown2", "enumkeys2", "fieldtargets2", "marker", "format", "ctxmissing3", "twopkgs", "twomarkers", "conversion2", "directive4", "twobroken", "extendmissing"}
GenVariants == {"root-dots", "flag-dots", "root-listed", "root-reversed", "root-dup"}
Ops == {[op |-> "gen", v |-> x] : x \in GenVariants} \cup {[op |-> "edit"], [op |-> "break"], [op |-> "bloat"], [op |-> "scramble"], [op |-> "delete"], [op |-> "guard"]}
        \cup {[op |-> "bad", k |-> k] : k \in Faults} \cup {[op |-> "unbad"]}

\* output files of a layout, as <<path, package clause>>
Outputs(layout) ==
  CASE layout = "separate" -> {<<"conv/generated/generated.go", "generated">>}
    [] layout = "same" -> {<<"conv/conv_gen.go", "conv">>}
    [] layout \in {"shared", "tie"} -> {<<"shared/gen.go", "shared">>}
    [] layout = "twofiles" -> {<<"conv/a_gen.go", "conv">>, <<"conv/b_gen.go", "conv">>}

Absent == [k |-> "absent"]
Out(v, b) == [k |-> "present", ver |-> v, broken |-> b]
Init0 == [ver |-> 1, bad |-> "none", guard |-> FALSE, out |-> Absent]

\* what the loader sees under the build tag: user sources of the current version; never the output, never guarded files
Visible(st) == [ver |-> st.ver, bad |-> st.bad]
\* does the whole tree compile under the *default* tags (what the user's build does)?
Compiles(st) == st.bad = "none" /\ st.out.k = "present" /\ ~st.out.broken /\ st.out.ver = st.ver

\* result of one step: new state and, for gen, the predicted observation
Step(st, o) ==
  CASE o.op = "edit" -> [st |-> [st EXCEPT !.ver = 3 - st.ver], exit |-> -1]
    [] o.op \in {"break", "bloat", "scramble"} -> [st |-> IF st.out.k = "present" THEN [st EXCEPT !.out.broken = TRUE] ELSE st, exit |-> -1]
    [] o.op = "delete" -> [st |-> [st EXCEPT !.out = Absent], exit |-> -1]
    [] o.op = "guard" -> [st |-> [st EXCEPT !.guard = ~st.guard], exit |-> -1]
    [] o.op = "bad" -> [st |-> [st EXCEPT !.bad = o.k], exit |-> -1]
    [] o.op = "unbad" -> [st |-> [st EXCEPT !.bad = "none"], exit |-> -1]
    [] o.op = "gen" -> IF Visible(st).bad # "none"
                       THEN [st |-> st, exit |-> 1]                                  \* Fail: nothing was written
                       ELSE [st |-> [st EXCEPT !.out = Out(st.ver, FALSE)], exit |-> 0]

RECURSIVE RunHist(_,_,_)
RunHist(st, h, i) == IF i > Len(h) THEN <<>> ELSE LET r == Step(st, h[i]) IN <<[pre |-> st, post |-> r.st, exit |-> r.exit]>> \o RunHist(r.st, h, i + 1)
=============================================================================
