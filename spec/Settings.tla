------------------------------ MODULE Settings ------------------------------
(* L1 front end: goverter's three-level settings (config/common.go, converter.go, method.go, parse/parse.go).

   Operational part (structured after the code): lines are applied in order  CLI (-g) -> converter doc comment
   -> method doc comment  onto a *copied* record: the converter starts from the defaults, every method starts
   from its converter's record (parseMethod: Common: c.Common).  ApplyCommon transcribes parseCommon,
   ConvLine / MethLine transcribe the switch heads of parseConverterLine / parseMethodLine: a key that the level's
   own switch does not know falls through to parseCommon, whose default branch rejects it ("unknown setting").

   Declarative part: Effective (method > converter > CLI > default), Invalid (what must be rejected).

   Constant-level module.  Values are real directive text: TLC produces the text that is written into the
   scratch sources.                                                                                          *)
EXTENDS Naturals, Sequences, FiniteSets, TLC

BoolKeys == {"wrapErrors", "ignoreUnexported", "update:ignoreZeroValueField", "update:ignoreZeroValueField:basic",
             "update:ignoreZeroValueField:struct", "update:ignoreZeroValueField:nillable", "default:update",
             "matchIgnoreCase", "ignoreMissing", "skipCopySameType", "useZeroValueOnPointerInconsistency",
             "useUnderlyingTypeMethods", "enum"}
StrKeys  == {"wrapErrorsUsing", "enum:unknown", "arg:context:regex"}
CommonKeys == BoolKeys \cup StrKeys
ConvOnly == {"name", "output:raw", "output:file", "output:format", "output:package", "struct:comment", "enum:exclude", "extend"}
MethOnly == {"map", "ignore", "update", "context", "enum:map", "enum:transform", "autoMap", "default"}
Markers  == {"converter", "variables"}
Levels   == {"cli", "conv", "meth"}

\* the record parseCommon works on (config.Common), reduced to what is inheritable
Default == [wrapErrors |-> FALSE, wrapErrorsUsing |-> "", ignoreUnexported |-> FALSE, zBasic |-> FALSE, zStruct |-> FALSE,
            zNillable |-> FALSE, defaultUpdate |-> FALSE, matchIgnoreCase |-> FALSE, ignoreMissing |-> FALSE, skip |-> FALSE,
            zero |-> FALSE, under |-> FALSE, enum |-> TRUE, enumUnknown |-> "", ctxRegex |-> ""]

\* which field(s) of the record a boolean key writes
FieldsOf(key) ==
  CASE key = "wrapErrors" -> {"wrapErrors"} [] key = "ignoreUnexported" -> {"ignoreUnexported"}
    [] key = "update:ignoreZeroValueField" -> {"zBasic", "zStruct", "zNillable"}
    [] key = "update:ignoreZeroValueField:basic" -> {"zBasic"} [] key = "update:ignoreZeroValueField:struct" -> {"zStruct"}
    [] key = "update:ignoreZeroValueField:nillable" -> {"zNillable"} [] key = "default:update" -> {"defaultUpdate"}
    [] key = "matchIgnoreCase" -> {"matchIgnoreCase"} [] key = "ignoreMissing" -> {"ignoreMissing"}
    [] key = "skipCopySameType" -> {"skip"} [] key = "useZeroValueOnPointerInconsistency" -> {"zero"}
    [] key = "useUnderlyingTypeMethods" -> {"under"} [] key = "enum" -> {"enum"}
StrField(key) == CASE key = "wrapErrorsUsing" -> "wrapErrorsUsing" [] key = "enum:unknown" -> "enumUnknown" [] key = "arg:context:regex" -> "ctxRegex"

\* ---------------------------------------------------------------- value text
\* strings.Fields on the value text: the spec only uses single-space separated words
RECURSIVE Words(_,_,_)
Words(s, i, cur) ==
  IF i > Len(s) THEN (IF cur = "" THEN <<>> ELSE <<cur>>)
  ELSE IF SubSeq(s, i, i) \in {" ", "\t"} THEN (IF cur = "" THEN <<>> ELSE <<cur>>) \o Words(s, i + 1, "")
  ELSE Words(s, i + 1, cur \o SubSeq(s, i, i))
FieldsOfText(s) == Words(s, 1, "")

\* parse.Bool: Enum(true, rest, "yes", "no")
BoolOK(val) == LET f == FieldsOfText(val) IN Len(f) = 0 \/ (Len(f) = 1 /\ f[1] \in {"yes", "no"})
BoolVal(val) == LET f == FieldsOfText(val) IN Len(f) = 0 \/ f[1] = "yes"
\* parse.String: exactly one field
StrOK(val) == Len(FieldsOfText(val)) = 1
StrVal(val) == FieldsOfText(val)[1]
\* the fixed pattern table (TLC has no regular expressions): which value texts compile as a Go regexp
BadRegex == {"(", "[a", "*"}
IsAction(w) == Len(w) > 0 /\ SubSeq(w, 1, 1) = "@"
ActionOK(w) == w \in {"@panic", "@error", "@ignore"}

\* ---------------------------------------------------------------- operational: parseCommon
Ok(c) == [ok |-> TRUE, c |-> c, why |-> ""]
Rej(c, why) == [ok |-> FALSE, c |-> c, why |-> why]

ApplyCommon(c, key, val) ==
  IF key = "" THEN Rej(c, "missing setting key")
  ELSE IF key = "wrapErrors" THEN
        (IF c.wrapErrorsUsing # "" THEN Rej(c, "conflict")                  \* even for `wrapErrors no`
         ELSE IF BoolOK(val) THEN Ok([c EXCEPT !.wrapErrors = BoolVal(val)]) ELSE Rej(c, "malformed"))
  ELSE IF key = "wrapErrorsUsing" THEN
        (IF c.wrapErrors THEN Rej(c, "conflict")
         ELSE IF StrOK(val) THEN Ok([c EXCEPT !.wrapErrorsUsing = StrVal(val)]) ELSE Rej(c, "malformed"))
  ELSE IF key \in BoolKeys THEN
        (IF BoolOK(val) THEN Ok([f \in DOMAIN c |-> IF f \in FieldsOf(key) THEN BoolVal(val) ELSE c[f]]) ELSE Rej(c, "malformed"))
  ELSE IF key = "arg:context:regex" THEN
        (IF StrOK(val) /\ StrVal(val) \notin BadRegex THEN Ok([c EXCEPT !.ctxRegex = StrVal(val)]) ELSE Rej(c, "malformed"))
  ELSE IF key = "enum:unknown" THEN
        (IF StrOK(val) /\ (IsAction(StrVal(val)) => ActionOK(StrVal(val))) THEN Ok([c EXCEPT !.enumUnknown = StrVal(val)]) ELSE Rej(c, "malformed"))
  ELSE Rej(c, "unknown setting")

\* the level-specific switch heads: a key they own is handled there ("own"), everything else goes to parseCommon
ConvLine(c, key, val) == IF key \in ConvOnly \cup Markers THEN [ok |-> TRUE, c |-> c, why |-> "own"] ELSE ApplyCommon(c, key, val)
MethLine(c, key, val) == IF key \in MethOnly THEN [ok |-> TRUE, c |-> c, why |-> "own"] ELSE ApplyCommon(c, key, val)

\* a line is [key, val]; apply a sequence of lines at one level; stops at the first rejection
RECURSIVE ApplyLines(_,_,_,_)
ApplyLines(level, c, lines, i) ==
  IF i > Len(lines) THEN [ok |-> TRUE, c |-> c, why |-> "", at |-> 0]
  ELSE LET r == IF level = "meth" THEN MethLine(c, lines[i].key, lines[i].val) ELSE ConvLine(c, lines[i].key, lines[i].val) IN
       IF ~r.ok THEN [ok |-> FALSE, c |-> c, why |-> r.why, at |-> i]
       ELSE ApplyLines(level, r.c, lines, i + 1)

\* one converter with one method under test and a sibling method: the whole parseConverter fold
Resolve(cli, conv, meth, sib) ==
  LET a == ApplyLines("cli", Default, cli, 1) IN
  IF ~a.ok THEN [ok |-> FALSE, level |-> "cli", why |-> a.why]
  ELSE LET b == ApplyLines("conv", a.c, conv, 1) IN
  IF ~b.ok THEN [ok |-> FALSE, level |-> "conv", why |-> b.why]
  ELSE LET m == ApplyLines("meth", b.c, meth, 1)
           s == ApplyLines("meth", b.c, sib, 1) IN
  IF ~m.ok THEN [ok |-> FALSE, level |-> "meth", why |-> m.why]
  ELSE IF ~s.ok THEN [ok |-> FALSE, level |-> "sib", why |-> s.why]
  ELSE [ok |-> TRUE, conv |-> b.c, meth |-> m.c, sib |-> s.c]

\* ---------------------------------------------------------------- declarative
(* Effective: the value written on the method, else on the converter, else on the command line, else the
   default.  "Written" = the last well-formed line for that field at that level.                           *)
Writes(key, field) == (key \in BoolKeys /\ field \in FieldsOf(key)) \/ (key \in StrKeys /\ StrField(key) = field)
LineVal(l) == IF l.key \in BoolKeys THEN BoolVal(l.val) ELSE StrVal(l.val)
RECURSIVE LastSet(_,_,_)
LastSet(lines, field, i) ==      \* index of the last line writing `field`, 0 if none
  IF i = 0 THEN 0 ELSE IF Writes(lines[i].key, field) THEN i ELSE LastSet(lines, field, i - 1)
Effective(cli, conv, meth, field) ==
  LET m == LastSet(meth, field, Len(meth)) c == LastSet(conv, field, Len(conv)) g == LastSet(cli, field, Len(cli)) IN
  IF m > 0 THEN LineVal(meth[m]) ELSE IF c > 0 THEN LineVal(conv[c]) ELSE IF g > 0 THEN LineVal(cli[g]) ELSE Default[field]
EffectiveRec(cli, conv, meth) == [f \in DOMAIN Default |-> Effective(cli, conv, meth, f)]

(* Invalid: what the statement says must be rejected, for a single line at a level.                         *)
Misplaced(level, key) == (level \in {"cli", "conv"} /\ key \in MethOnly) \/ (level = "meth" /\ key \in ConvOnly \cup Markers)
Unknown(key) == key \notin CommonKeys \cup ConvOnly \cup MethOnly \cup Markers
Malformed(key, val) ==
  \/ key \in BoolKeys /\ ~BoolOK(val)
  \/ key \in StrKeys /\ ~StrOK(val)
  \/ key = "arg:context:regex" /\ StrOK(val) /\ StrVal(val) \in BadRegex
  \/ key = "enum:unknown" /\ StrOK(val) /\ IsAction(StrVal(val)) /\ ~ActionOK(StrVal(val))
InvalidLine(level, key, val) == Misplaced(level, key) \/ Unknown(key) \/ (key \in CommonKeys /\ Malformed(key, val))

\* text of a directive line as written in a doc comment / after -g
LineText(l) == IF l.val = "" THEN l.key ELSE l.key \o " " \o l.val
=============================================================================
