-------------------------- MODULE SettingsUniverse --------------------------
(* Bounded scenario space of the F-Text/settings family: placements of directive lines at the three levels. *)
EXTENDS Settings

L(k, v) == [key |-> k, val |-> v]
Place(k, pl) == CASE pl = "absent" -> <<>> [] pl = "bare" -> <<L(k, "")>> [] pl = "yes" -> <<L(k, "yes")>> [] pl = "no" -> <<L(k, "no")>>
Placements == {"absent", "bare", "yes", "no"}

\* P: every boolean setting over {absent, bare, yes, no}^3 with a sibling method holding absent / yes / no
ScenP == {[kind |-> "P", cli |-> Place(k, a), conv |-> Place(k, b), meth |-> Place(k, c), sib |-> Place(k, d)] :
            k \in BoolKeys, a \in Placements, b \in Placements, c \in Placements, d \in {"absent", "yes", "no"}}

StrVals(k) == CASE k = "wrapErrorsUsing" -> <<"v.test/b/wx", "v.test/b/wy">>
                [] k = "enum:unknown" -> <<"@ignore", "@panic">>
                [] k = "arg:context:regex" -> <<"^ctx", "^c.*x$">>
SPlace(k, i) == IF i = 0 THEN <<>> ELSE <<L(k, StrVals(k)[i])>>
ScenS == {[kind |-> "S", cli |-> SPlace(k, a), conv |-> SPlace(k, b), meth |-> SPlace(k, c), sib |-> SPlace(k, d)] :
            k \in StrKeys, a \in 0..2, b \in 0..2, c \in 0..2, d \in 0..1}

\* D: two lines for the same setting at one level -- the later one wins
AtLevel(lv, lines) == [kind |-> "D", cli |-> IF lv = "cli" THEN lines ELSE <<>>, conv |-> IF lv = "conv" THEN lines ELSE <<>>,
                       meth |-> IF lv = "meth" THEN lines ELSE <<>>, sib |-> <<>>]
ScenD == {AtLevel(lv, <<L(k, a), L(k, b)>>) : lv \in Levels, k \in BoolKeys, a \in {"yes", "no"}, b \in {"yes", "no", ""}}
           \cup {AtLevel(lv, <<L("update:ignoreZeroValueField", a), L(k, b)>>) : lv \in Levels, a \in {"yes", "no"}, b \in {"yes", "no"},
                   k \in {"update:ignoreZeroValueField:basic", "update:ignoreZeroValueField:struct", "update:ignoreZeroValueField:nillable"}}
           \cup {AtLevel(lv, <<L(k, b), L("update:ignoreZeroValueField", a)>>) : lv \in Levels, a \in {"yes", "no"}, b \in {"yes", "no"},
                   k \in {"update:ignoreZeroValueField:basic"}}

\* X: the conflicting pair in both orders, at the same and at different levels
One(lv, l) == [cli |-> IF lv = "cli" THEN <<l>> ELSE <<>>, conv |-> IF lv = "conv" THEN <<l>> ELSE <<>>, meth |-> IF lv = "meth" THEN <<l>> ELSE <<>>]
\* the sibling is an *update* method (Sib(source S2, target *T2)): lines written on it
OnSib(ls) == [kind |-> "V", cli |-> <<>>, conv |-> <<>>, meth |-> <<>>, sib |-> ls]
Merge(x, y) == [kind |-> "X", cli |-> x.cli \o y.cli, conv |-> x.conv \o y.conv, meth |-> x.meth \o y.meth, sib |-> <<>>]
ScenX == {Merge(One(l1, L("wrapErrors", v)), One(l2, L("wrapErrorsUsing", "v.test/b/wx"))) : l1 \in Levels, l2 \in Levels, v \in {"", "yes", "no"}}
           \cup {Merge(One(l2, L("wrapErrorsUsing", "v.test/b/wx")), One(l1, L("wrapErrors", v))) : l1 \in Levels, l2 \in Levels, v \in {"", "yes", "no"}}

\* V: one line (level, key, value text) -- misplaced, unknown, missing or malformed values
ValTexts == {"", "yes", "no", "YES", "No", "maybe", "yes no", "X", "(", "@bogus", "@error", "X Y Z", ".", "A.B", "A | F", " yes", "yes ", "*",
             "Nick", "Inner", "PI", "Nick.X", "A | Fixed", "A A | ToA", "Inner.C A", "PI.C A", "NewT"}
AllKeys == CommonKeys \cup ConvOnly \cup MethOnly \cup {"foo", "", "Map", "wraperrors", "goverter:map", "enum:", ":"}
OwnLines == {L("map", "A | Fixed"), L("map", "B | Fixed"), L("map", "B A | ToA"), L("map", "A | ToA"), L("ignore", "A"), L("autoMap", "Nick"), L("default", "NewT2")}
ScenV == {[kind |-> "V"] @@ One(lv, L(k, v)) @@ [sib |-> <<>>] : lv \in Levels, k \in AllKeys, v \in ValTexts}
           \cup {OnSib(<<L(k, v)>>) : k \in MethOnly \cup CommonKeys, v \in ValTexts}
           \cup {OnSib(<<L(k, ""), o>>) : k \in BoolKeys, o \in OwnLines}
           \cup {[kind |-> "V", cli |-> <<>>, conv |-> <<>>, meth |-> <<L(k, ""), o>>, sib |-> <<>>] : k \in BoolKeys, o \in OwnLines}

Scenarios == ScenP \cup ScenS \cup ScenD \cup ScenX \cup ScenV

\* ---------------- expectations derived from the declarative layer
AllLines(sc) == {<<"cli", sc.cli[i]>> : i \in DOMAIN sc.cli} \cup {<<"conv", sc.conv[i]>> : i \in DOMAIN sc.conv}
                 \cup {<<"meth", sc.meth[i]>> : i \in DOMAIN sc.meth} \cup {<<"meth", sc.sib[i]>> : i \in DOMAIN sc.sib}
HasInvalid(sc) == \E p \in AllLines(sc) : InvalidLine(p[1], p[2].key, p[2].val)
\* lines whose acceptance depends on the program (own keys of the level with their own value grammar): left open
HasOwn(sc) == \E p \in AllLines(sc) : (p[1] \in {"cli", "conv"} /\ p[2].key \in ConvOnly \cup Markers) \/ (p[1] = "meth" /\ p[2].key \in MethOnly)
\* a context regex that matches the parameter name "source" turns the only source into a context: the line is
\* well-formed, the *signature* is then rejected (C14) -- acceptance of the scenario is left open
RegexMatchingSource == {"."}
HasSourceRegex(sc) == \E p \in AllLines(sc) : p[2].key = "arg:context:regex" /\ StrOK(p[2].val) /\ StrVal(p[2].val) \in RegexMatchingSource
\* both wrapErrors and wrapErrorsUsing in effect for the method: the documented conflict
EffM(sc) == EffectiveRec(sc.cli, sc.conv, sc.meth)
EffS(sc) == EffectiveRec(sc.cli, sc.conv, sc.sib)
BothEnabled(sc) == ~HasInvalid(sc) /\ EffM(sc).wrapErrors /\ EffM(sc).wrapErrorsUsing # ""
Expect(sc) == IF HasInvalid(sc) \/ BothEnabled(sc) THEN "error" ELSE IF HasOwn(sc) \/ HasSourceRegex(sc) \/ sc.kind = "X" THEN "open" ELSE "ok"
=============================================================================
