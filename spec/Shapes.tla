------------------------------- MODULE Shapes -------------------------------
(* C13: programs over the corners of the Go type grammar that the other families do not reach -- self-referential
   and mutually recursive named types through every constructor, the `seen` rule (one named type at several
   positions of one method), generic types, and types goverter cannot convert by itself -- as source text produced
   by TLC.  The statement only fixes the outcome class: the run terminates with output or with a diagnostic.     *)
EXTENDS Naturals, Sequences, FiniteSets, TLC

Ctors == {"slice", "ptr", "map", "array", "structptr", "structslice", "structmap", "structval2", "func", "chan", "mapkey"}
\* definition of a named type n in terms of m (m = n: self-referential; m # n: mutual recursion)
Def(c, m) ==
  CASE c = "slice" -> "[]" \o m
    [] c = "ptr" -> "*" \o m
    [] c = "map" -> "map[string]" \o m
    [] c = "mapkey" -> "map[*" \o m \o "]int"
    [] c = "array" -> "[2]*" \o m
    [] c = "structptr" -> "struct {\n\tNext *" \o m \o "\n\tV int\n}"
    [] c = "structslice" -> "struct {\n\tKids []" \o m \o "\n\tV int\n}"
    [] c = "structmap" -> "struct {\n\tKids map[string]" \o m \o "\n\tV int\n}"
    [] c = "structval2" -> "struct {\n\tL *" \o m \o "\n\tR *" \o m \o "\n}"
    [] c = "func" -> "func(" \o m \o ") " \o m
    [] c = "chan" -> "chan " \o m
Uses == {"top", "slice", "field", "ptr"}
Sig(u, a, b) ==
  CASE u = "top" -> "Conv(source " \o a \o ") " \o b
    [] u = "slice" -> "Conv(source []" \o a \o ") []" \o b
    [] u = "ptr" -> "Conv(source *" \o a \o ") *" \o b
    [] u = "field" -> "Conv(source struct{ F " \o a \o " }) struct{ F " \o b \o " }"
Settings == {"", "// goverter:skipCopySameType\n", "// goverter:useZeroValueOnPointerInconsistency\n", "// goverter:enum no\n"}
Hdr(st) == "package p\n\n"
Conv(st, sig) == "\n// goverter:converter\n" \o st \o "type C interface {\n\t" \o sig \o "\n}\n"

\* self-referential types: A, B defined alike; A -> B and A -> A
SelfProgs == {[name |-> "self-" \o c \o "-" \o u \o (IF same THEN "-same" ELSE ""),
               src |-> Hdr(st) \o "type A " \o Def(c, "A") \o "\n\ntype B " \o Def(c, "B") \o "\n" \o Conv(st, Sig(u, "A", IF same THEN "A" ELSE "B"))] :
                 c \in Ctors, u \in Uses, same \in BOOLEAN, st \in Settings}
\* mutual recursion A1 <-> A2 (and B1 <-> B2)
MutualProgs == {[name |-> "mutual-" \o c1 \o "-" \o c2,
                 src |-> Hdr("") \o "type A1 " \o Def(c1, "A2") \o "\n\ntype A2 " \o Def(c2, "A1") \o "\n\ntype B1 " \o Def(c1, "B2") \o "\n\ntype B2 " \o Def(c2, "B1") \o "\n"
                          \o Conv(st, Sig("top", "A1", "B1"))] : c1 \in {"slice", "ptr", "structptr", "structslice"}, c2 \in {"slice", "ptr", "map", "structptr", "structmap"}, st \in {"", "// goverter:skipCopySameType\n"}}
\* the `seen` rule: one named type at two positions of one method, towards the same / towards different targets
SeenProgs == {[name |-> "seen-" \o k \o (IF st = "" THEN "" ELSE "-setting"),
               src |-> Hdr(st) \o "type Stamp struct{ T int }\ntype Stamp2 struct{ T int }\ntype Stamp3 struct{ T int }\ntype NI int\n\n"
                        \o (CASE k = "same-target" -> "type In struct {\n\tCreated Stamp\n\tUpdated Stamp\n}\ntype Out struct {\n\tCreated Stamp2\n\tUpdated Stamp2\n}\n"
                              [] k = "identical" -> "type In struct {\n\tCreated Stamp\n\tUpdated Stamp\n}\ntype Out struct {\n\tCreated Stamp\n\tUpdated Stamp\n}\n"
                              [] k = "two-targets" -> "type In struct {\n\tCreated Stamp\n\tUpdated Stamp\n}\ntype Out struct {\n\tCreated Stamp2\n\tUpdated Stamp3\n}\n"
                              [] k = "named-basic" -> "type In struct {\n\tA NI\n\tB NI\n\tC map[NI]NI\n}\ntype Out struct {\n\tA int\n\tB int64\n\tC map[int]int\n}\n"
                              [] k = "pointer-and-value" -> "type In struct {\n\tA Stamp\n\tB *Stamp\n\tC []Stamp\n}\ntype Out struct {\n\tA Stamp2\n\tB *Stamp2\n\tC []Stamp2\n}\n")
                        \o Conv(st, "Conv(source In) Out")] :
                 k \in {"same-target", "identical", "two-targets", "named-basic", "pointer-and-value"}, st \in Settings}
\* generic types and methods
GenericProgs == {[name |-> "generic-" \o k,
                  src |-> Hdr("") \o (CASE k = "inst" -> "type G[T any] struct{ V T }\n" \o Conv("", "Conv(source G[int]) G[int]")
                                         [] k = "inst2" -> "type G[T any] struct{ V T }\ntype H[T any] struct{ V T }\n" \o Conv("", "Conv(source G[int]) H[int]")
                                         [] k = "nested" -> "type G[T any] struct{ V []T }\n" \o Conv("", "Conv(source G[G[int]]) G[G[int]]")
                                         [] k = "recursive" -> "type G[T any] struct {\n\tNext *G[T]\n\tV T\n}\n" \o Conv("", "Conv(source G[int]) G[int]")
                                         [] k = "constraint" -> "type Num interface{ ~int | ~int64 }\ntype G[T Num] struct{ V T }\n" \o Conv("", "Conv(source G[int]) G[int64]"))] :
                    k \in {"inst", "inst2", "nested", "recursive", "constraint"}}
\* a converter interface that is itself generic
GenericConvProgs == {[name |-> "generic-converter-" \o k,
                      src |-> Hdr("") \o "type G[T any] struct{ V T }\n\n// goverter:converter\ntype C[T any] interface {\n\t" \o
                              (CASE k = "param" -> "Conv(source T) T" [] k = "inst" -> "Conv(source G[T]) G[T]" [] k = "slice" -> "Conv(source []T) []T") \o "\n}\n"] :
                        k \in {"param", "inst", "slice"}}
\* converter interfaces with embedded interfaces / type sets, and a recursive helper that gains an error result late
OddConvProgs == {[name |-> "oddconv-" \o k,
                  src |-> CASE k = "embedded" -> Hdr("") \o "type Base interface {\n\tConvB(source int) int\n}\n\n// goverter:converter\ntype C interface {\n\tBase\n\tConv(source int) int\n}\n"
                            [] k = "embedded-only" -> Hdr("") \o "type Base interface {\n\tConvB(source int) int\n}\n\n// goverter:converter\ntype C interface {\n\tBase\n}\n"
                            [] k = "typeset" -> Hdr("") \o "// goverter:converter\ntype C interface {\n\t~int | ~string\n}\n"
                            [] k = "empty" -> Hdr("") \o "// goverter:converter\ntype C interface{}\n"
                            [] k = "late-error" -> Hdr("") \o "import \"strconv\"\n\nvar _ = strconv.Atoi\n\ntype In struct {\n\tKids  []In\n\tValue string\n}\ntype Out struct {\n\tKids  []Out\n\tValue int\n}\n\n// goverter:converter\n// goverter:extend strconv:Atoi\ntype C interface {\n\tConv(source *In) (*Out, error)\n}\n"
                            [] k = "late-error-2" -> Hdr("") \o "import \"strconv\"\n\nvar _ = strconv.Atoi\n\ntype In struct {\n\tL *In\n\tR []In\n\tM map[string]In\n\tValue string\n}\ntype Out struct {\n\tL *Out\n\tR []Out\n\tM map[string]Out\n\tValue int\n}\n\n// goverter:converter\n// goverter:extend strconv:Atoi\ntype C interface {\n\tConv(source []In) ([]Out, error)\n}\n"
                            [] k = "ctx-method-unavailable" -> Hdr("") \o "type Loc struct{ L string }\ntype Item struct{ V int }\ntype ItemDTO struct{ V int }\n\n// goverter:converter\ntype C interface {\n\t// goverter:context loc\n\tConvertItem(loc Loc, source Item) ItemDTO\n\tConv(source []Item) []ItemDTO\n}\n"
                            [] k = "blank-variable" -> Hdr("") \o "type In struct{ V int }\ntype Out struct{ V int }\n\n// goverter:variables\nvar (\n\t_    func(source In) Out\n\tConv func(source In) Out\n)\n"
                            [] k = "blank-variable-only" -> Hdr("") \o "type In struct{ V int }\ntype Out struct{ V int }\n\n// goverter:variables\nvar (\n\t_ func(source In) Out\n)\n"] :
                    k \in {"embedded", "embedded-only", "typeset", "empty", "late-error", "late-error-2", "ctx-method-unavailable", "blank-variable", "blank-variable-only"}}
\* update methods with update:ignoreZeroValueField over every kind of field type (the zero-value comparison must exist for each)
ZeroFieldTypes == {"unsafe.Pointer", "uintptr", "complex128", "chan int", "func()", "interface{}", "any", "error", "[2]int", "[0]int", "struct{ X int }", "struct{}",
                   "*int", "[]int", "map[string]int", "string", "bool", "float32", "rune", "NI", "NS", "NP"}
UpdateZeroProgs == {[name |-> "update-zero-" \o ft \o "-" \o z \o (IF sk THEN "-skip" ELSE ""),
                     src |-> "package p\n\nimport \"unsafe\"\n\nvar _ unsafe.Pointer\n\ntype NI int\ntype NS struct{ X []int }\ntype NP *int\n\ntype S struct{ F " \o ft \o " }\ntype T struct{ F " \o ft \o " }\n"
                             \o "\n// goverter:converter\n// goverter:update:ignoreZeroValueField" \o z \o "\n" \o (IF sk THEN "// goverter:skipCopySameType\n" ELSE "")
                             \o "type C interface {\n\t// goverter:update target\n\tConv(source S, target *T)\n}\n"] :
                       ft \in ZeroFieldTypes, z \in {"", ":basic", ":struct", ":nillable"}, sk \in BOOLEAN}
Progs == SelfProgs \cup MutualProgs \cup SeenProgs \cup GenericProgs \cup GenericConvProgs \cup UpdateZeroProgs \cup OddConvProgs
=============================================================================
