------------------------------ MODULE Signature ------------------------------
(* L1: classification of parameters and results of a conversion method (method/parse.go Parse) as a fold over the
   parameter list, and the declarative reading of C14.  A signature is [params, results, use]:
     params  : sequence of kinds   src (source S)  src2 (other S2)  ctxdecl (ctx X, declared `context ctx`)
                                   ctxregex (rxA Y, matched by arg:context:regex ^rx)  conv (the converter interface itself)
                                   upd (target *T, named by `update target`)
     results : sequence over {"T", "error", "int"}
     use     : "method" (converter interface method) | "extend" (custom function; a parameter of the converter's type
               is the converter, not a source)
   Constant-level.                                                                                          *)
EXTENDS Naturals, Sequences, FiniteSets, TLC

ParamKinds == {"src", "src2", "ctxdecl", "ctxregex", "conv", "upd"}
\* "localerror": a type named `error` declared in the converter's own package (not the built-in error)
ResultLists == {<<>>, <<"T">>, <<"T", "error">>, <<"error">>, <<"T", "int">>, <<"T", "error", "error">>, <<"int">>, <<"T", "T">>, <<"error", "T">>,
                <<"T", "localerror">>, <<"localerror">>, <<"error", "error">>, <<"error", "int">>}

\* ---- operational: the switch of method.Parse, first matching case wins
RoleOf(use, k, haveSource) ==
  IF k = "conv" /\ use = "extend" THEN "interface"
  ELSE IF k = "upd" THEN "target"
  ELSE IF k \in {"ctxdecl", "ctxregex"} THEN "context"
  ELSE IF ~haveSource THEN "source" ELSE "additional-source"
RECURSIVE Fold(_,_,_,_)
Fold(use, ps, i, acc) ==
  IF i > Len(ps) THEN acc
  ELSE LET r == RoleOf(use, ps[i], acc.source # 0) IN
       Fold(use, ps, i + 1, [roles |-> Append(acc.roles, r), source |-> IF r = "source" THEN i ELSE acc.source,
                             extra |-> acc.extra + (IF r = "additional-source" THEN 1 ELSE 0), upd |-> acc.upd + (IF r = "target" THEN 1 ELSE 0)])
Classify(sig) == Fold(sig.use, sig.params, 1, [roles |-> <<>>, source |-> 0, extra |-> 0, upd |-> 0])
IsErr(x) == x = "error"
OpAccepts(sig) ==
  LET c == Classify(sig) n == Len(sig.results) IN
  /\ (c.upd > 0 => (n = 0 \/ (n = 1 /\ IsErr(sig.results[1]))))               \* update: nothing or error
  /\ (c.upd = 0 => (n \in {1, 2} /\ (n = 2 => IsErr(sig.results[2]))))         \* one or two results, the second is error
  /\ c.source # 0 /\ c.extra = 0                                               \* exactly one source
  /\ c.upd <= 1
  /\ sig.params[c.source] \in {"src", "src2"}                                  \* ... of a convertible type (the converter interface is not)
  /\ (c.upd = 0 => sig.results[1] = "T")                                        \* ... into the target type

\* ---- declarative (C14)
Sources(sig) == {i \in DOMAIN sig.params : sig.params[i] \notin {"ctxdecl", "ctxregex", "upd"} /\ ~(sig.params[i] = "conv" /\ sig.use = "extend")}
IsUpdate(sig) == \E i \in DOMAIN sig.params : sig.params[i] = "upd"
Valid(sig) ==
  /\ Cardinality(Sources(sig)) = 1                                              \* exactly one source
  /\ Cardinality({i \in DOMAIN sig.params : sig.params[i] = "upd"}) <= 1
  /\ (IsUpdate(sig) => sig.results \in {<<>>, <<"error">>})                   \* update methods return nothing but an optional error
  /\ (~IsUpdate(sig) => sig.results \in {<<"T">>, <<"T", "error">>})          \* first result the target, optional second the built-in error
  /\ \A i \in Sources(sig) : sig.params[i] \in {"src", "src2"}
\* which parameter's value must arrive in the result
SourceIndex(sig) == CHOOSE i \in Sources(sig) : TRUE

RECURSIVE ParamLists(_)
ParamLists(n) == IF n = 0 THEN {<<>>} ELSE ParamLists(n - 1) \cup {Append(a, k) : a \in {b \in ParamLists(n - 1) : Len(b) = n - 1}, k \in ParamKinds}
\* a kind may occur once, except plain sources (two parameters cannot share a name)
WellNamed(ps) == \A i, j \in DOMAIN ps : (i # j /\ ps[i] = ps[j]) => FALSE
Sigs(n) == {[params |-> ps, results |-> rs, use |-> "method", layout |-> "line", place |-> "local"] : ps \in {q \in ParamLists(n) : WellNamed(q)}, rs \in ResultLists}
\* custom (extend) functions: the converter interface as a parameter is the converter; a sibling function in the same file
\* declares `context source` and `context other`, which must not turn this function's plain parameters into contexts
ExtSigs0 == {[params |-> ps, results |-> rs, use |-> "extend"] :
              ps \in {q \in ParamLists(3) : WellNamed(q) /\ \A i \in DOMAIN q : q[i] \in {"src", "src2", "ctxdecl", "conv"}},
              rs \in {<<>>, <<"T">>, <<"T", "error">>, <<"T", "int">>, <<"T", "localerror">>}}
(* C19 on custom functions: the `goverter:context ctx` line of the function's doc comment in several layouts -- as a line comment,
   directive style (no blank), a block comment, after a tab with trailing blanks; and where the text is NOT a setting: inside prose,
   in a comment detached by a blank line, in a trailing comment.  place: the function lives next to the converter, or in one of two
   different packages x1/ext, x2/ext that share the package name `ext` (doc comments are looked up per package).              *)
\* tabsep: a tab instead of the blank between the setting name and its value (`goverter:context<TAB>ctx`): the value is the text after
\* the first *space*, so this line names the unknown setting "context\tctx" and is not the context setting
\* longline: the setting line follows a comment line of 70 000 characters (longer than a default bufio.Scanner token)
DocLayouts == {"line", "directive", "block", "tab", "prose", "detached", "trailing", "tabsep", "longline"}
NotSetting == {"prose", "detached", "trailing", "tabsep"}
HasCtxDecl(s) == \E i \in DOMAIN s.params : s.params[i] = "ctxdecl"
ExtSigs == {[params |-> s.params, results |-> s.results, use |-> "extend", layout |-> "line", place |-> pl] : s \in ExtSigs0, pl \in {"local", "x1", "x2", "regex", "typename", "unexported"}}
           \* regex: selected by a pattern (goverter:extend F12x?) instead of its name; typename: the name denotes a declared func *type*
           \* (type F12 func(...) ...), not a function: it must be rejected whatever its signature
           \cup {[params |-> s.params, results |-> s.results, use |-> "extend", layout |-> l, place |-> "local"] : s \in {x \in ExtSigs0 : HasCtxDecl(x)}, l \in DocLayouts}
           \* methoddoc: the function has no doc comment; a *method* of the same name on some type carries `goverter:context source` and
           \* `goverter:context other` -- doc comments of other declarations are not settings of this function
           \cup {[params |-> s.params, results |-> s.results, use |-> "extend", layout |-> "line", place |-> "methoddoc"] : s \in {x \in ExtSigs0 : ~HasCtxDecl(x)}}
\* what the parameter list means once the doc comment has been read: without the setting line the parameter is a plain one
AsPlain(s) == [s EXCEPT !.params = [i \in DOMAIN s.params |-> IF s.params[i] = "ctxdecl" THEN "src2" ELSE s.params[i]]]
Eff(s) == IF s.layout \in NotSetting THEN AsPlain(s) ELSE s
\* unexported: a function of the converter's own package whose name is not exported, with the output in another package: it cannot be
\* called from there and must be rejected
ValidX(s) == s.place \notin {"typename", "unexported"} /\ Valid(Eff(s))
\* the reading under which the line is taken the wrong way round
Misread(s) == IF s.layout \in NotSetting THEN s ELSE AsPlain(s)
=============================================================================
