------------------------------ MODULE Trace_Gen ------------------------------
(* Role B2: trace validation of the generator's fix-point protocol and rule chain.  The events are emitted by the
   verif hooks in generator/generator.go, setup.go, generate.go (one event per protocol step, after the state change).
   The trace specification keeps the *logged* method index (name -> signature flags, dirty bit, creator chain, recorded
   call edges and callers) and allows an event only if it is legal in the current state:

     gen.reg      a declared method is registered (dirty)                       gen.sweep   some method is dirty
     gen.pick     a dirty method is taken by the sweep                          gen.top     a build starts under the availability
     gen.newsub   a sub-method is created by the method being built                         the protocol prescribes
     gen.call     a call is emitted for the callee's *current* signature        gen.neederr / gen.needctx   a retrofit marks a
     gen.seen     the `seen` rule re-marks the method being built                           non-explicit method on the creator chain
     gen.end      a build ends: errors are not dropped, contexts are in scope   gen.append  nothing is dirty, no call edge is stale
     gen.rule / gen.mismatch   the logged builder is the first one of the chain whose Matches holds for the logged type
                  features (UseUnderlyingTypeMethods and Enum depend on state that is not logged and are admitted when
                  their setting is on)
     gen.lookup   a hit names a registered method with that signature; a miss means none is registered

   Invariants evaluated on every step: SigConsistentAtAppend, ExplicitFrozen.
   Acceptance: every event was consumed (POSTCONDITION Accepted).  A rejection is reported as MODEL-DRIFT.      *)
EXTENDS Naturals, Sequences, FiniteSets, TLC, Json, SequencesExt

CONSTANT TraceFile
Trace == ndJsonDeserialize(TraceFile)

VARIABLES l, meth, stack, phase, bad, last
vars == <<l, meth, stack, phase, bad, last>>
\* last: what the previous event said about the conversion position being decided (lookup -> seen -> sub -> newsub)
NoLast == [ev |-> "", src |-> "", tgt |-> "", hit |-> "", create |-> FALSE]

Rng(s) == {s[i] : i \in DOMAIN s}
E == Trace[l]
IsEvent(name) == l <= Len(Trace) /\ Trace[l].ev = name /\ l' = l + 1
Top == stack[Len(stack)]
AnyDirty == \E m \in DOMAIN meth : meth[m].dirty

Init == l = 1 /\ meth = <<>> /\ stack = <<>> /\ phase = "idle" /\ bad = {} /\ last = NoLast

\* a new converter (or a new run: trace.reset) starts from an empty index
Start == /\ (IsEvent("gen.start") \/ IsEvent("trace.reset"))
         /\ meth' = <<>> /\ stack' = <<>> /\ phase' = "setup" /\ bad' = {}
Ext == IsEvent("gen.ext") /\ phase = "setup" /\ UNCHANGED <<meth, stack, phase, bad>>
Reg == /\ IsEvent("gen.reg") /\ phase = "setup"
       /\ E.m \notin DOMAIN meth
       /\ meth' = meth @@ (E.m :> [src |-> E.src, tgt |-> E.tgt, explicit |-> TRUE, update |-> E.update,
                                   retErr |-> E.retErr, ctx |-> Rng(E.ctx), dirty |-> TRUE, origin |-> <<>>,
                                   calls |-> {}, callers |-> {}, avail |-> Rng(E.ctx)])
       /\ UNCHANGED <<stack, phase, bad>>
Sweep == /\ IsEvent("gen.sweep") /\ phase \in {"setup", "sweeping"} /\ stack = <<>> /\ AnyDirty
         /\ phase' = "sweeping" /\ UNCHANGED <<meth, stack, bad>>
Pick == /\ IsEvent("gen.pick") /\ phase = "sweeping" /\ stack = <<>>
        /\ E.m \in DOMAIN meth /\ meth[E.m].dirty
        /\ meth' = [meth EXCEPT ![E.m].dirty = FALSE]
        /\ UNCHANGED <<stack, phase, bad>>
\* a declared method is built under its own contexts, a generated one under the availability of its creation
TopEv == /\ IsEvent("gen.top") /\ phase = "sweeping"
         /\ E.m \in DOMAIN meth
         /\ Rng(E.avail) = (IF meth[E.m].explicit THEN meth[E.m].ctx ELSE meth[E.m].avail)
         /\ E.retErr = meth[E.m].retErr /\ Rng(E.ctx) = meth[E.m].ctx
         /\ meth' = [meth EXCEPT ![E.m].calls = {}]
         /\ stack' = Append(stack, E.m)
         /\ UNCHANGED <<phase, bad>>
SameSig(m, src, tgt) == meth[m].src = src /\ meth[m].tgt = tgt /\ ~meth[m].update
TopAvail == IF meth[Top].explicit THEN meth[Top].ctx ELSE meth[Top].avail
NewSub == /\ IsEvent("gen.newsub") /\ stack # <<>> /\ E.creator = Top
          /\ last.ev = "gen.sub" /\ last.create /\ last.src = E.src /\ last.tgt = E.tgt      \* only after the decision to create one, for that pair
          /\ E.m \notin DOMAIN meth
          /\ ~\E m \in DOMAIN meth : SameSig(m, E.src, E.tgt)                     \* LookupFirst
          /\ meth' = meth @@ (E.m :> [src |-> E.src, tgt |-> E.tgt, explicit |-> FALSE, update |-> FALSE,
                                      retErr |-> FALSE, ctx |-> {}, dirty |-> FALSE,
                                      origin |-> <<Top>> \o meth[Top].origin, calls |-> {}, callers |-> {}, avail |-> TopAvail])
          /\ UNCHANGED <<stack, phase, bad>>
Lookup == /\ IsEvent("gen.lookup") /\ stack # <<>> /\ E.m = Top
          /\ (E.hit = "method" => (E.callee \in DOMAIN meth /\ SameSig(E.callee, E.src, E.tgt)))
          /\ (E.hit = "none" => ~\E m \in DOMAIN meth : SameSig(m, E.src, E.tgt))
          /\ UNCHANGED <<meth, stack, phase, bad>>
Known(c) == c \in DOMAIN meth
Call == /\ IsEvent("gen.call") /\ stack # <<>> /\ E.caller = Top
        /\ ((E.generated /\ Known(E.callee)) =>
              /\ E.retErr = meth[E.callee].retErr                                  \* emitted for the callee's current signature
              /\ Rng(E.ctx) = meth[E.callee].ctx)
        /\ meth' = [m \in DOMAIN meth |->
                      IF m = Top THEN [meth[m] EXCEPT !.calls = @ \cup {[callee |-> E.callee, generated |-> E.generated /\ Known(E.callee), retErr |-> E.retErr, ctx |-> Rng(E.ctx)]}]
                      ELSE IF E.generated /\ m = E.callee THEN [meth[m] EXCEPT !.callers = @ \cup {Top}]
                      ELSE meth[m]]
        /\ UNCHANGED <<stack, phase, bad>>
OnPath(m) == m = Top \/ m \in Rng(meth[Top].origin)
\* signatureChanged: the method and its recorded callers are marked dirty
Touch(m, f) == [x \in DOMAIN meth |-> IF x = m THEN [f EXCEPT !.dirty = TRUE] ELSE IF x \in meth[m].callers THEN [meth[x] EXCEPT !.dirty = TRUE] ELSE meth[x]]
NeedErr == /\ IsEvent("gen.neederr") /\ stack # <<>>
           /\ OnPath(E.m) /\ ~meth[E.m].explicit /\ ~meth[E.m].retErr
           /\ meth' = Touch(E.m, [meth[E.m] EXCEPT !.retErr = TRUE])
           /\ UNCHANGED <<stack, phase, bad>>
NeedCtx == /\ IsEvent("gen.needctx") /\ stack # <<>>
           /\ OnPath(E.m) /\ ~meth[E.m].explicit /\ E.t \notin meth[E.m].ctx
           /\ meth' = Touch(E.m, [meth[E.m] EXCEPT !.ctx = @ \cup {E.t}])
           /\ UNCHANGED <<stack, phase, bad>>
\* The sub-method decision is taken only after the lookup missed for exactly this pair -- or where the lookup is bypassed because
\* only a *generated* helper exists for the pair (update assignments) -- and is the documented function of the logged features:
\* the seen rule forces a helper; otherwise none inside a pointer-variant method or for identical types under skipCopySameType;
\* otherwise one for named non-basic types and pointers to them (named basic pairs may be enums: state that is not logged).
MissedFor(src, tgt) == last.ev = "gen.lookup" /\ last.hit = "none" /\ last.src = src /\ last.tgt = tgt
HelperOnly(src, tgt) == \E m \in DOMAIN meth : SameSig(m, src, tgt) /\ ~meth[m].explicit
Seen == /\ IsEvent("gen.seen") /\ stack # <<>> /\ E.m = Top
        /\ ((last.ev = "gen.lookup" /\ last.hit = "none") \/ (\E m \in DOMAIN meth : ~meth[m].explicit))
        /\ meth' = [meth EXCEPT ![E.m].dirty = TRUE]
        /\ UNCHANGED <<stack, phase, bad>>
SubBase(e) == (e.s.named /\ ~e.s.basic) \/ (e.t.named /\ ~e.t.basic) \/ (e.s.ptr /\ e.s.e.named /\ ~e.s.e.basic)
MaybeEnum(e) == e.s.named /\ e.s.basic /\ e.t.named /\ e.t.basic
SubDecision(e, seen) ==
  IF seen THEN e.create
  ELSE IF e.ptrStruct THEN ~e.create
  ELSE IF e.skip /\ e.s.str = e.t.str THEN ~e.create
  ELSE IF SubBase(e) THEN e.create
  ELSE IF MaybeEnum(e) THEN TRUE
  ELSE ~e.create
Sub == /\ IsEvent("gen.sub") /\ stack # <<>> /\ E.m = Top
       /\ \/ MissedFor(E.s.str, E.t.str)
          \/ (last.ev = "gen.seen" /\ ((last.src = E.s.str /\ last.tgt = E.t.str) \/ HelperOnly(E.s.str, E.t.str)))
          \/ HelperOnly(E.s.str, E.t.str)
       /\ SubDecision(E, last.ev = "gen.seen")
       /\ UNCHANGED <<meth, stack, phase, bad>>

\* ---------------- the rule chain on logged type features
RuleOrder == <<"*builder.UseUnderlyingTypeMethods", "*builder.SkipCopy", "*builder.Enum", "*builder.BasicTargetPointerRule", "*builder.Pointer",
               "*builder.SourcePointer", "*builder.TargetPointer", "*builder.Basic", "*builder.Struct", "*builder.List", "*builder.Map">>
Det(r, e) ==   \* rules whose Matches is a function of the logged features
  CASE r = "*builder.SkipCopy" -> e.skip /\ e.s.str = e.t.str
    [] r = "*builder.BasicTargetPointerRule" -> e.s.basic /\ e.t.ptr /\ e.t.e.basic
    [] r = "*builder.Pointer" -> e.s.ptr /\ e.t.ptr
    [] r = "*builder.SourcePointer" -> e.zero /\ e.s.ptr /\ ~e.t.ptr
    [] r = "*builder.TargetPointer" -> ~e.s.ptr /\ e.t.ptr
    [] r = "*builder.Basic" -> e.s.basic /\ e.t.basic /\ e.s.kind = e.t.kind
    [] r = "*builder.Struct" -> e.s.struct /\ e.t.struct
    [] r = "*builder.List" -> e.s.list /\ e.t.list /\ ~e.t.fixed
    [] r = "*builder.Map" -> e.s.map /\ e.t.map
    [] OTHER -> FALSE
\* rules that depend on unlogged state: admitted when their precondition on logged data holds
May(r, e) ==
  CASE r = "*builder.UseUnderlyingTypeMethods" -> e.under /\ (e.s.named \/ e.t.named)
    [] r = "*builder.Enum" -> e.enum /\ e.s.named /\ e.t.named /\ e.s.basic /\ e.t.basic
    [] OTHER -> FALSE
Idx(r) == CHOOSE i \in DOMAIN RuleOrder : RuleOrder[i] = r
FirstDet(e) == LET hits == {i \in DOMAIN RuleOrder : Det(RuleOrder[i], e)} IN IF hits = {} THEN 0 ELSE CHOOSE i \in hits : \A j \in hits : i <= j
RuleOK(e) == \/ (FirstDet(e) # 0 /\ RuleOrder[FirstDet(e)] = e.rule /\ TRUE)
             \/ (May(e.rule, e) /\ (FirstDet(e) = 0 \/ Idx(e.rule) < FirstDet(e)))
RuleEv == /\ IsEvent("gen.rule") /\ stack # <<>> /\ E.m = Top /\ RuleOK(E)
          /\ UNCHANGED <<meth, stack, phase, bad>>
Mismatch == /\ IsEvent("gen.mismatch") /\ stack # <<>> /\ E.m = Top /\ FirstDet(E) = 0
            /\ UNCHANGED <<meth, stack, phase, bad>>

\* ErrorNeverDropped / ContextRouted are evaluated when a build ends successfully
EndEv == /\ IsEvent("gen.end") /\ stack # <<>> /\ E.m = Top
         /\ E.retErr = meth[Top].retErr /\ Rng(E.ctx) = meth[Top].ctx
         /\ (E.ok => \A c \in meth[Top].calls : (c.retErr => meth[Top].retErr))
         /\ stack' = SubSeq(stack, 1, Len(stack) - 1)
         /\ UNCHANGED <<meth, phase, bad>>
Stale == {p \in (DOMAIN meth) \X (DOMAIN meth) :
             \E c \in meth[p[1]].calls : c.callee = p[2] /\ c.generated
                  /\ (c.retErr # meth[p[2]].retErr \/ c.ctx # meth[p[2]].ctx)}
AppendEv == /\ IsEvent("gen.append") /\ stack = <<>> /\ phase \in {"setup", "sweeping"} /\ ~AnyDirty
            /\ bad' = Stale /\ phase' = "appended" /\ UNCHANGED <<meth, stack>>
FailEv == /\ IsEvent("gen.fail") /\ phase' = "failed" /\ stack' = <<>> /\ UNCHANGED <<meth, bad>>
\* after a failed nested build the enclosing builds end with ok = false as well
EndFailed == /\ IsEvent("gen.end") /\ phase = "failed" /\ UNCHANGED <<meth, stack, phase, bad>>

Summ(e) == IF e.ev = "gen.lookup" THEN [ev |-> e.ev, src |-> e.src, tgt |-> e.tgt, hit |-> e.hit, create |-> FALSE]
           ELSE IF e.ev = "gen.sub" THEN [ev |-> e.ev, src |-> e.s.str, tgt |-> e.t.str, hit |-> "", create |-> e.create]
           ELSE IF e.ev = "gen.seen" THEN [last EXCEPT !.ev = "gen.seen"]
           ELSE NoLast
Next == /\ Start \/ Ext \/ Reg \/ Sweep \/ Pick \/ TopEv \/ NewSub \/ Lookup \/ Call \/ NeedErr \/ NeedCtx \/ Seen \/ Sub \/ RuleEv \/ Mismatch
           \/ EndEv \/ AppendEv \/ FailEv \/ EndFailed
        /\ last' = Summ(E)
Spec == Init /\ [][Next]_vars

SigConsistentAtAppend == phase = "appended" => bad = {}
ExplicitFrozen == [][\A m \in (DOMAIN meth \cap DOMAIN meth') : (meth[m].explicit /\ meth'[m].explicit) => (meth'[m].retErr = meth[m].retErr /\ meth'[m].ctx = meth[m].ctx)]_vars
Accepted == IF TLCGet("stats").diameter - 1 = Len(Trace) THEN TRUE ELSE PrintT("STUCK|" \o ToString(TLCGet("stats").diameter)) /\ FALSE
=============================================================================
