------------------------------- MODULE Types -------------------------------
(* Abstract Go types and values shared by every module of the goverter specification.
   Constant-level module (no VARIABLES) so that Obs_* / Export_* modules can extend it.

   Type terms are records; recursion goes only through named ids (F-Calls) or is absent (F-Rules):
     basic(b)  named(id,u)  ptr(e)  slice(e)  array(e) (length 2)  map(key,e)  struct(fs)
     iface(id) func chan
   "named" carries its underlying term u so that predicates can look through the name exactly
   like xtype.TypeOf does (applyTo on Underlying()).                                           *)
EXTENDS Naturals, Sequences, FiniteSets, TLC

B(k)     == [k |-> "basic", b |-> k]
Nm(id,u) == [k |-> "named", id |-> id, u |-> u]
P(t)     == [k |-> "ptr", e |-> t]
S(t)     == [k |-> "slice", e |-> t]
A(t)     == [k |-> "array", e |-> t]
M(a,b)   == [k |-> "map", key |-> a, e |-> b]
Fld(n,t) == [n |-> n, t |-> t]
St(fs)   == [k |-> "struct", fs |-> fs]
If(id)   == [k |-> "iface", id |-> id]
Fn       == [k |-> "func"]
Ch       == [k |-> "chan"]

INT == B("int")
STR == B("string")

\* xtype.Type flags (all of them look through a name)
Under(t)    == IF t.k = "named" THEN t.u ELSE t
IsNamed(t)  == t.k = "named"
IsBasic(t)  == Under(t).k = "basic"
IsPtr(t)    == Under(t).k = "ptr"
IsSlice(t)  == Under(t).k = "slice"
IsArray(t)  == Under(t).k = "array"
IsList(t)   == Under(t).k \in {"slice", "array"}
IsMap(t)    == Under(t).k = "map"
IsStruct(t) == Under(t).k = "struct"
IsIface(t)  == Under(t).k = "iface"
IsFunc(t)   == Under(t).k = "func"
IsChan(t)   == Under(t).k = "chan"
\* byte and rune are distinct *types.Basic objects of go/types with the kinds of uint8 and int32
CanonKind(b) == CASE b = "byte" -> "uint8" [] b = "rune" -> "int32" [] OTHER -> b
Kind(t)     == CanonKind(Under(t).b)
Elem(t)     == Under(t).e
KeyT(t)     == Under(t).key
Fields(t)   == Under(t).fs
Exported(n) == SubSeq(n, 1, 1) \in {"A","B","C","D","E","F","G","H","I","J","K","L","M","N","O","P","Q","R","S","T","U","V","W","X","Y","Z"}

\* the typed basic kinds of go/types (untyped kinds cannot occur in signatures)
BasicKinds == {"bool", "int", "int8", "int16", "int32", "int64", "uint", "uint8", "uint16", "uint32", "uint64",
               "uintptr", "float32", "float64", "complex64", "complex128", "string", "unsafe.Pointer", "byte", "rune"}

\* ---------------------------------------------------------------- values
(* nil | b(tok) | p(a,e) | s(a,es) | arr(es) | m(a,kv) | st(fs) | o(a)   (o = opaque interface/func/chan value)
   tok: "z" is the zero value of the kind, "a"/"b" two distinct non-zero boundary values.
   a:   an address label; inputs carry "i<n>" (equal labels = the same cell), results carry the
        input label when the address is an input address, "o<n>" otherwise.                      *)
Nil == [k |-> "nil"]
Bv(tok) == [k |-> "b", tok |-> tok]
Panic == [k |-> "panic"]
IsPanic(v) == v.k = "panic"

Toks(kind) == IF kind = "bool" THEN {"z", "a"} ELSE {"z", "a", "b"}

RECURSIVE Zero(_)
Zero(t) ==
  LET u == Under(t) IN
  CASE u.k = "basic" -> Bv("z")
    [] u.k \in {"ptr", "slice", "map", "iface", "func", "chan"} -> Nil
    [] u.k = "array" -> [k |-> "arr", es |-> <<Zero(u.e), Zero(u.e)>>]
    [] u.k = "struct" -> [k |-> "st", fs |-> [i \in 1..Len(u.fs) |-> Zero(u.fs[i].t)]]

(* Vals(t, w): a finite set of values of type t.  w bounds the width: w = 1 keeps containers small
   (quick tier), w = 2 adds two-element containers with shared and with distinct elements.
   All addresses are "i": distinct occurrences are made distinct cells by the materialiser unless
   the label ends in a digit (explicit sharing, only produced by ValsShared).                      *)
RECURSIVE Vals(_,_)
Vals(t, w) ==
  LET u == Under(t) IN
  CASE u.k = "basic" -> {Bv(x) : x \in (IF w = 0 THEN {"z", "a"} ELSE Toks(u.b))}
    [] u.k = "ptr"   -> {Nil} \cup {[k |-> "p", a |-> "i", e |-> v] : v \in Vals(u.e, w)}
    [] u.k = "slice" -> {Nil, [k |-> "s", a |-> "i", es |-> <<>>]}
                         \cup {[k |-> "s", a |-> "i", es |-> <<v>>] : v \in Vals(u.e, w)}
                         \cup (IF w >= 2 THEN {[k |-> "s", a |-> "i", es |-> <<v, x>>] : v \in Vals(u.e, 0), x \in Vals(u.e, 0)} ELSE {})
    [] u.k = "array" -> {[k |-> "arr", es |-> <<v, Zero(u.e)>>] : v \in Vals(u.e, w)}          \* one position varies at a time:
                         \cup {[k |-> "arr", es |-> <<Zero(u.e), v>>] : v \in Vals(u.e, 0)}   \* linear, not quadratic, in |Vals(e)|
    [] u.k = "map"   -> {Nil, [k |-> "m", a |-> "i", kv |-> {}]}
                         \cup {[k |-> "m", a |-> "i", kv |-> {<<kk, Zero(u.e)>>}] : kk \in Vals(u.key, 0)}
                         \cup {[k |-> "m", a |-> "i", kv |-> {<<Zero(u.key), v>>}] : v \in Vals(u.e, w)}
    [] u.k = "struct" -> IF Len(u.fs) = 0 THEN {[k |-> "st", fs |-> <<>>]}
                         ELSE IF Len(u.fs) = 1 THEN {[k |-> "st", fs |-> <<v>>] : v \in Vals(u.fs[1].t, w)}
                         ELSE {[k |-> "st", fs |-> <<v, Zero(u.fs[2].t)>>] : v \in Vals(u.fs[1].t, w)}
                              \cup {[k |-> "st", fs |-> <<Zero(u.fs[1].t), x>>] : x \in Vals(u.fs[2].t, w)}
    [] u.k \in {"iface", "func", "chan"} -> {Nil}

\* erase addresses (C02 compares structure only; aliasing is C04's business)
RECURSIVE Strip(_)
Strip(v) ==
  CASE v.k \in {"nil", "b", "panic"} -> v
    [] v.k = "o" -> [k |-> "o", a |-> "-"]
    [] v.k = "p" -> [k |-> "p", a |-> "-", e |-> Strip(v.e)]
    [] v.k = "s" -> [k |-> "s", a |-> "-", es |-> [i \in DOMAIN v.es |-> Strip(v.es[i])]]
    [] v.k = "arr" -> [k |-> "arr", es |-> [i \in DOMAIN v.es |-> Strip(v.es[i])]]
    [] v.k = "m" -> [k |-> "m", a |-> "-", kv |-> {<<Strip(p[1]), Strip(p[2])>> : p \in v.kv}]
    [] v.k = "st" -> [k |-> "st", fs |-> [i \in DOMAIN v.fs |-> Strip(v.fs[i])]]

\* JSON gives map entries as a sequence of pairs: normalise to a set of pairs (recursively)
Rng(q) == {q[i] : i \in DOMAIN q}
RECURSIVE FromJson(_)
FromJson(v) ==
  CASE v.k \in {"nil", "b", "panic", "o"} -> v
    [] v.k = "p" -> [v EXCEPT !.e = FromJson(v.e)]
    [] v.k \in {"s", "arr"} -> [v EXCEPT !.es = [i \in DOMAIN v.es |-> FromJson(v.es[i])]]
    [] v.k = "m" -> [v EXCEPT !.kv = {<<FromJson(p[1]), FromJson(p[2])>> : p \in Rng(v.kv)}]
    [] v.k = "st" -> [v EXCEPT !.fs = [i \in DOMAIN v.fs |-> FromJson(v.fs[i])]]

\* set of input-address labels occurring in a value
RECURSIVE Addrs(_)
Addrs(v) ==
  CASE v.k \in {"nil", "b", "panic"} -> {}
    [] v.k = "o" -> {v.a}
    [] v.k = "p" -> {v.a} \cup Addrs(v.e)
    [] v.k = "s" -> (IF Len(v.es) = 0 THEN {} ELSE {v.a}) \cup UNION {Addrs(v.es[i]) : i \in DOMAIN v.es}
    [] v.k = "arr" -> UNION {Addrs(v.es[i]) : i \in DOMAIN v.es}
    [] v.k = "m" -> {v.a} \cup UNION {Addrs(p[1]) \cup Addrs(p[2]) : p \in v.kv}
    [] v.k = "st" -> UNION {Addrs(v.fs[i]) : i \in DOMAIN v.fs}
IsInAddr(a) == SubSeq(a, 1, 1) = "i"
=============================================================================
