------------------------------- MODULE Update -------------------------------
(* Update methods (generator.convertTo, builder/struct.go shouldCheckAgainstZero and the builders' own nil guards)
   for a target with a basic (A int), a named struct (N), a pointer (P *int) and a slice (L []int) field, all of
   identical type on both sides; plus a plain map (M map[string]int) and a named map (NM UTags) -- the latter is converted by a call
   of a generated helper, so only the explicit zero guard keeps a nil source from overwriting the target.
   comb: the three categories are switched on by the single combined line `update:ignoreZeroValueField`.
   Must  = what C10 demands per field: "keep" (previous value), "conv" (conversion of the source field) or "open".
   Oper  = what the generator's patterns do.  Constant-level.                                               *)
EXTENDS Naturals, Sequences, FiniteSets, TLC
UFields == <<"A", "N", "P", "L">>
\* PH: a pointer to a named struct whose target type differs (PH *UH -> *UHO): converted by a call of a generated helper, like NM
AllUFields == {"A", "N", "P", "L", "M", "NM", "PH"}
MFields == <<"M", "NM", "PH">>
KindOf == [f \in AllUFields |-> CASE f = "A" -> "basic" [] f = "N" -> "struct" [] OTHER -> "nillable"]
UProgs == {p \in [basic : BOOLEAN, struct : BOOLEAN, nillable : BOOLEAN, skip : BOOLEAN, srcPtr : BOOLEAN, ignoreA : BOOLEAN, retErr : BOOLEAN, comb : BOOLEAN] :
             p.comb => (p.basic /\ p.struct /\ p.nillable)}
\* a fifth target field LS []string fed by `map L LS | ToS` (a custom function changing the slice type): nillable category
MustLS(p, nonzero) == IF "L" \in nonzero THEN "conv" ELSE IF p.nillable THEN "keep" ELSE "open"
\* all valuations of the first four fields with nil maps, and all valuations of the maps with the others zero / non-zero
Valuations == SUBSET {"A", "N", "P", "L"} \cup {v \cup m : v \in {{}, {"A", "N", "P", "L"}}, m \in SUBSET {"M", "NM", "PH"}}
Selected(p, f) == (KindOf[f] = "basic" /\ p.basic) \/ (KindOf[f] = "struct" /\ p.struct) \/ (KindOf[f] = "nillable" /\ p.nillable)
Must(p, f, nonzero) ==
  IF f = "A" /\ p.ignoreA THEN "keep"                      \* ignored fields keep their previous values
  ELSE IF f \in nonzero THEN "conv"                        \* mapped field with a non-zero source value is replaced
  ELSE IF Selected(p, f) THEN "keep"                       \* zero value of a selected category leaves the target unchanged
  ELSE "open"
Oper(p, f, nonzero) ==
  IF f = "A" /\ p.ignoreA THEN "keep"
  ELSE IF f \in nonzero THEN "conv"
  ELSE CASE KindOf[f] = "basic" -> IF p.basic THEN "keep" ELSE "conv"
         [] KindOf[f] = "struct" -> IF p.struct THEN "keep" ELSE "conv"
         [] f \in {"NM", "PH"} -> IF p.nillable THEN "keep" ELSE "conv" \* a helper call (or a direct assignment) is not guarded by itself
         [] OTHER -> IF p.nillable THEN "keep"              \* explicit zero guard (skipCopy) or the builder's own nil guard
                     ELSE IF p.skip THEN "conv"             \* identical types are assigned directly: nil overwrites
                     ELSE "keep"                            \* nil pointer / slice: the builder's nil guard never assigns
\* category corners: the category of a field is that of its *source* type.  F int -> *int and G string -> *string are basic,
\* H *int -> int (useZeroValueOnPointerInconsistency) is nillable; only :basic and :nillable matter
CatFields == <<"F", "G", "H">>
CatKind == [f \in {"F", "G", "H"} |-> IF f = "H" THEN "nillable" ELSE "basic"]
CatProgs == [basic : BOOLEAN, nillable : BOOLEAN]
CatMust(p, f, full) == IF full THEN "conv" ELSE IF (CatKind[f] = "basic" /\ p.basic) \/ (CatKind[f] = "nillable" /\ p.nillable) THEN "keep" ELSE "open"
\* a nil source pointer leaves the target untouched
MustNil(p, f) == "keep"
=============================================================================
