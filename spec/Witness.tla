------------------------------- MODULE Witness -------------------------------
(* Effect witnesses for settings resolution (C12) on *generated* methods, whose settings cannot be read from the parsed
   configuration: wrapErrors.  Program: a converter with two declared methods M1(S1) (T1, error), M2(S2) (T2, error) whose
   structs both contain the named pair Inner -> Inner2; the conversion Inner.V (string) -> Inner2.V (int) goes through a
   failing custom function.  goverter generates ONE helper method for Inner -> Inner2, shared by M1 and M2.
   wrapErrors is placed (absent / yes / no) on the converter, on M1 and on M2.
   Documented resolution: a declared method: method > converter > default; a generated helper: the converter's value.
   Expected error text of Mi: ["error setting field <Mi's field>: " if wrapErrors is in effect for Mi]
                              ["error setting field V: " if it is in effect for the converter] "boom".              *)
EXTENDS Settings
Placements3 == {"absent", "yes", "no"}
\* kind "helper": as described; kind "direct": one method M1(S3) (T3, error) converting K string -> K int directly (no helper)
WProgs == {[kind |-> "helper", pc |-> a, p1 |-> b, p2 |-> c] : a \in Placements3, b \in Placements3, c \in Placements3}
            \cup {[kind |-> "direct", pc |-> a, p1 |-> b, p2 |-> "absent"] : a \in Placements3, b \in Placements3}
\* kind "ctxregex": arg:context:regex (absent / a pattern matching the extra parameter kx / one that does not) on the converter
\* and on two declared methods Mi(source Si, kx int) Ti with `map V | Fn`, Fn(v string, kx int) string: the parameter kx of the
\* method *and* of the custom function named on it is a context exactly when the pattern in effect for that method matches;
\* otherwise there are two sources and generation fails.
Placements3R == {"absent", "match", "nomatch"}
\* kind "ctxregexfn": the same in the function output format (all converters of a run share one package and one custom function:
\* what was decided about Fn under one converter's pattern must not carry over to the next)
WProgsR == {[kind |-> k, pc |-> a, p1 |-> b, p2 |-> c] : k \in {"ctxregex", "ctxregexfn"}, a \in Placements3R, b \in Placements3R, c \in Placements3R}
RegexLines(pl) == IF pl = "absent" THEN <<>> ELSE <<[key |-> "arg:context:regex", val |-> IF pl = "match" THEN "^kx$" ELSE "^zz$"]>>
EffRegex(w, pl) == Effective(<<>>, RegexLines(w.pc), RegexLines(pl), "ctxRegex")
RegexOK(w) == EffRegex(w, w.p1) = "^kx$" /\ EffRegex(w, w.p2) = "^kx$"
\* kind "skipcopy": skipCopySameType (absent / yes / no) on the converter and on two declared methods Mk(Sk) Tk whose structs have a
\* field I of the *same* named struct type In6{L []int} on both sides and a field C of *different* named types Cu -> CuD{Tags []int}.
\* The method's own value decides whether I is assigned as it is; the generated helpers (In6 -> In6, Cu -> CuD, shared by both
\* methods) follow the converter's value.  Observed through address labels: does the result share the slice with the source?
WProgsS == {[kind |-> "skipcopy", pc |-> a, p1 |-> b, p2 |-> c] : a \in Placements3, b \in Placements3, c \in Placements3}
SkipLines(pl) == IF pl = "absent" THEN <<>> ELSE <<[key |-> "skipCopySameType", val |-> pl]>>
EffSkipConv(w) == Effective(<<>>, SkipLines(w.pc), <<>>, "skip")
EffSkipMeth(w, pl) == Effective(<<>>, SkipLines(w.pc), SkipLines(pl), "skip")
AliasI(w, pl) == EffSkipMeth(w, pl) \/ EffSkipConv(w)
AliasC(w) == EffSkipConv(w)
\* kind "skipdecl": skipCopySameType (absent / yes) on M1(S8) T8, whose structs have a field I of the same named struct type In8{A, B};
\* the converter also *declares* M2(In8) In8 with `ignore B`.  C06: a declared method is used for its pair wherever the pair occurs --
\* skipCopySameType on the caller does not bypass it, so B of M1's result is 0 (ignored), not the source's 6
WProgsD == {[kind |-> "skipdecl", pc |-> "absent", p1 |-> b, p2 |-> "absent"] : b \in {"absent", "yes"}}
\* kind "enumoff": `enum` (absent / yes / no) on the converter and on two declared methods Mk(SEk) TEk whose structs have a field of the
\* enum types Col (Red = 1, Green = 2) -> Col2 (Green = 1, Red = 2).  With enum handling in effect for the method the field is an enum
\* pair and is converted by a generated helper, which follows the converter's value; otherwise it is a cast of the number.
\* Observed: Red (1) arrives as Red (2) -- mapped by name -- or as 1.
WProgsE == {[kind |-> "enumoff", pc |-> a, p1 |-> b, p2 |-> c] : a \in Placements3, b \in Placements3, c \in Placements3}
EnumLines(pl) == IF pl = "absent" THEN <<>> ELSE <<[key |-> "enum", val |-> pl]>>
EffEnumConv(w) == Effective(<<>>, EnumLines(w.pc), <<>>, "enum")
EffEnumMeth(w, pl) == Effective(<<>>, EnumLines(w.pc), EnumLines(pl), "enum")
ByName(w, pl) == EffEnumMeth(w, pl) /\ EffEnumConv(w)
\* named deviation DevLookupBeforeOwnSetting (known finding): M1 is built first; when it made goverter generate the helper for the enum
\* pair, M2 finds that helper by lookup before its own `enum no` is consulted and converts by name as well
DevHelperOfSibling(w) == ByName(w, w.p1) /\ ~EffEnumMeth(w, w.p2)
\* kind "emptypath": wrapErrorsUsing on a method whose failing conversion has no field, index or key above it (M1(*string) (*int, error)):
\* the wrap package is still called (with no elements) and therefore imported
WProgsP == {[kind |-> "emptypath", pc |-> "using", p1 |-> "absent", p2 |-> "absent"]}
\* kind "zeroflag": useZeroValueOnPointerInconsistency (absent / yes / no) on the converter and on two declared methods Mk(SZk) TZk with a
\* direct field Q *int -> int (the method's own value decides) and a field W of named struct types Wrap{P *int} -> Wrap2{P int}, whose
\* conversion is a generated helper shared by both methods (the converter's value decides).  Generation succeeds iff every such
\* position has the setting in effect.
WProgsZ == {[kind |-> "zeroflag", pc |-> a, p1 |-> b, p2 |-> c] : a \in Placements3, b \in Placements3, c \in Placements3}
ZeroLines(pl) == IF pl = "absent" THEN <<>> ELSE <<[key |-> "useZeroValueOnPointerInconsistency", val |-> pl]>>
EffZeroConv(w) == Effective(<<>>, ZeroLines(w.pc), <<>>, "zero")
EffZeroMeth(w, pl) == Effective(<<>>, ZeroLines(w.pc), ZeroLines(pl), "zero")
ZeroOK(w) == EffZeroConv(w) /\ EffZeroMeth(w, w.p1) /\ EffZeroMeth(w, w.p2)
LinesOf(pl) == IF pl = "absent" THEN <<>> ELSE <<[key |-> "wrapErrors", val |-> pl]>>
EffConvW(w) == Effective(<<>>, LinesOf(w.pc), <<>>, "wrapErrors")
EffMethW(w, pl) == Effective(<<>>, LinesOf(w.pc), LinesOf(pl), "wrapErrors")
Chain(w, pl, field) == (IF EffMethW(w, pl) THEN <<field>> ELSE <<>>) \o (IF EffConvW(w) THEN <<"V">> ELSE <<>>)
ExpectM1(w) == IF w.kind = "direct" THEN (IF EffMethW(w, w.p1) THEN <<"K">> ELSE <<>>) ELSE Chain(w, w.p1, "I")
ExpectM2(w) == IF w.kind = "direct" THEN <<>> ELSE Chain(w, w.p2, "J")
\* C18: fmt is imported exactly when some wrap is emitted
NeedsFmt(w) == IF w.kind = "direct" THEN EffMethW(w, w.p1) ELSE EffConvW(w) \/ EffMethW(w, w.p1) \/ EffMethW(w, w.p2)
=============================================================================
